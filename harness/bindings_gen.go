package main

// C12 / C13: SP outbound bindings — redirect URLs, relay state, message IDs, signatures.

import (
	"bytes"
	"compress/flate"
	"crypto"
	"crypto/ecdsa"
	"crypto/rsa"
	"crypto/sha1"
	"crypto/sha256"
	"crypto/sha512"
	"crypto/x509"
	"encoding/asn1"
	"encoding/base64"
	"encoding/xml"
	"fmt"
	"io"
	"math/big"
	"net/http"
	"net/http/httptest"
	"net/url"
	"regexp"
	"strconv"
	"strings"
	"time"

	"github.com/beevik/etree"
	"github.com/crewjam/saml"
	"github.com/crewjam/saml/samlsp"
	dsig "github.com/russellhaering/goxmldsig"
)

func init() {
	gens["C12"] = (*Ctx).genC12
	gens["C13"] = (*Ctx).genC13
}

var relayStates = []string{"", "simple", "a&b=c#frag", "a=b", "with space", "plus+plus", "100%", "%41%zz", "semi;colon", "q?x=1&y=2", "\"quoted\" 'single' <tag>", "tab\tnl\ncr\r",
	"héllo wörld ✓ 𝄞", "/path/../x?redirect=https://evil.example.org/", strings.Repeat("long-relay-state-", 6), strings.Repeat("€", 40), "&", "=", "#", "+", "%", " ", "&&&===", "RelayState=x&SAMLRequest=evil"}

var idpEndpoints = []string{"https://idp.example.com/saml/sso", "https://idp.example.com/saml/sso?foo=bar", "https://idp.example.com/sso?tenant=a%20b&x=1", "https://idp.example.com/sso?"}

func (c *Ctx) spFor(ssoURL, sloURLIdp string, keyName, method string, post bool) *saml.ServiceProvider {
	k := c.key(keyName)
	s := &saml.ServiceProvider{EntityID: spEntity, Key: k.Key, Certificate: k.Cert, MetadataURL: mustURL(spMDURL), AcsURL: mustURL(acsURL), SloURL: mustURL(sloURL),
		SignatureMethod: method,
		IDPMetadata: &saml.EntityDescriptor{EntityID: idpEntity, IDPSSODescriptors: []saml.IDPSSODescriptor{{
			SingleSignOnServices: []saml.Endpoint{{Binding: saml.HTTPRedirectBinding, Location: ssoURL}, {Binding: saml.HTTPPostBinding, Location: ssoURL}},
			// (a ResponseLocation on the IdP's logout endpoints is legal; this SP addresses requests and responses to Location)
			SSODescriptor: saml.SSODescriptor{SingleLogoutServices: []saml.Endpoint{{Binding: saml.HTTPRedirectBinding, Location: sloURLIdp, ResponseLocation: "https://idp.example.com/saml/slo-response-location"},
				{Binding: saml.HTTPPostBinding, Location: sloURLIdp, ResponseLocation: "https://idp.example.com/saml/slo-response-location"}}},
		}}}}
	// the configured name-ID format, in rotation: unset (transient by the library's documented default), the package's constants,
	// and legal formats the package has no constant for — the policy on the wire is the configured one
	spForN++
	s.AuthnNameIDFormat = nameIDFormatPool[spForN%len(nameIDFormatPool)]
	// what the IdP says it wants (absent, true, false) does not change what an SP configured to sign does
	switch spForN % 3 {
	case 1:
		t := true
		s.IDPMetadata.IDPSSODescriptors[0].WantAuthnRequestsSigned = &t
	case 2:
		f := false
		s.IDPMetadata.IDPSSODescriptors[0].WantAuthnRequestsSigned = &f
	}
	return s
}

// the library's own random source, as it is before anybody replaces it
var defaultSAMLRand = saml.RandReader

var spForN int
var nameIDFormatPool = []saml.NameIDFormat{"", saml.TransientNameIDFormat, saml.EmailAddressNameIDFormat, saml.PersistentNameIDFormat, saml.UnspecifiedNameIDFormat,
	"urn:oasis:names:tc:SAML:1.1:nameid-format:X509SubjectName", "urn:oasis:names:tc:SAML:2.0:nameid-format:kerberos", "urn:example:deployment:employee-number"}

// wantNameIDPolicy: what NameIDPolicy/@Format (and a LogoutRequest's NameID/@Format) must read for a configured format
func wantNameIDPolicy(f saml.NameIDFormat) string {
	switch f {
	case "":
		return string(saml.TransientNameIDFormat)
	case saml.UnspecifiedNameIDFormat:
		return ""
	}
	return string(f)
}

func inflateB64(s string) ([]byte, error) {
	z, err := base64.StdEncoding.DecodeString(s)
	if err != nil {
		return nil, err
	}
	return io.ReadAll(flate.NewReader(bytes.NewReader(z)))
}

// rawParams splits a raw query by hand (independent of net/url) and unescapes with the harness's own routine
func rawParam(rawQuery, key string) (vals []string) {
	for _, comp := range strings.Split(rawQuery, "&") {
		k, v, _ := strings.Cut(comp, "=")
		if k == key {
			u, err := url.QueryUnescape(v)
			if err != nil {
				u = "<bad-escape>"
			}
			vals = append(vals, u)
		}
	}
	return
}

func hashFor(method string) (crypto.Hash, func([]byte) []byte) {
	switch {
	case strings.HasSuffix(method, "sha1"):
		return crypto.SHA1, func(b []byte) []byte { h := sha1.Sum(b); return h[:] }
	case strings.HasSuffix(method, "sha256"):
		return crypto.SHA256, func(b []byte) []byte { h := sha256.Sum256(b); return h[:] }
	case strings.HasSuffix(method, "sha384"):
		return crypto.SHA384, func(b []byte) []byte { h := sha512.Sum384(b); return h[:] }
	}
	return crypto.SHA512, func(b []byte) []byte { h := sha512.Sum512(b); return h[:] }
}

// verifyDetached checks a redirect-binding signature over the given octets with the public key of cert
func verifyDetached(pub crypto.PublicKey, method string, octets, sig []byte) bool {
	h, sum := hashFor(method)
	digest := sum(octets)
	switch k := pub.(type) {
	case *rsa.PublicKey:
		return rsa.VerifyPKCS1v15(k, h, digest, sig) == nil
	case *ecdsa.PublicKey:
		var rs struct{ R, S *big.Int }
		if _, err := asn1.Unmarshal(sig, &rs); err == nil && ecdsa.Verify(k, digest, rs.R, rs.S) {
			return true
		}
		if len(sig)%2 == 0 { // raw r||s
			n := len(sig) / 2
			return ecdsa.Verify(k, digest, new(big.Int).SetBytes(sig[:n]), new(big.Int).SetBytes(sig[n:]))
		}
	}
	return false
}

func (c *Ctx) authnRedirect(endpoint, relay, keyName, method string, idp *saml.IdentityProvider) {
	s := c.spFor(endpoint, endpoint, keyName, method, false)
	dr := &detReader{c: c, short: c.chance(0.3)}
	saml.RandReader = dr
	c.count("rand-reader", map[bool]string{true: "short-reads", false: "full-reads"}[dr.short])
	now := baseTime
	saml.TimeNow = func() time.Time { return now }
	saml.MaxIssueDelay = 90 * time.Second
	var u *url.URL
	impl := safely(func() string {
		var err error
		u, err = s.MakeRedirectAuthenticationRequest(relay)
		if err != nil {
			return "err"
		}
		return encBytes([]byte(u.RawQuery))
	})
	var q0 string
	if i := strings.Index(endpoint, "?"); i >= 0 {
		q0 = endpoint[i+1:]
	}
	var why []string
	msg, sigAlg, sigB := "", "", []byte(nil)
	if u != nil {
		raw := u.RawQuery
		if method != "" && !knownMethod(method) {
			why = append(why, fmt.Sprintf("key=unknown-method-accepted a redirect request was produced under the unknown signature method %q instead of an error", method))
		}
		if fam := map[bool]string{true: "ecdsa", false: "rsa"}[strings.HasPrefix(keyName, "ec")]; method != "" && knownMethod(method) && !strings.Contains(method, "#"+fam+"-") {
			why = append(why, fmt.Sprintf("key=method-key-mismatch-accepted a redirect request was produced under %s with a key of the %s family instead of an error", method, fam))
		}
		if m := rawParam(raw, "SAMLRequest"); len(m) != 1 {
			why = append(why, fmt.Sprintf("key=redirect-params %d SAMLRequest parameters", len(m)))
		} else {
			msg = m[0]
		}
		rs := rawParam(raw, "RelayState")
		if relay == "" && len(rs) != 0 || relay != "" && (len(rs) != 1 || rs[0] != relay) {
			why = append(why, fmt.Sprintf("key=relay-state:%s RelayState does not round-trip as a single parameter: sent %q, URL carries %q", relayClass(relay), relay, rs))
		}
		// the endpoint's own parameters are preserved and nothing else appears
		want := map[string]bool{"SAMLRequest": true, "RelayState": true, "SigAlg": true, "Signature": true}
		for _, comp := range strings.Split(q0, "&") {
			if comp != "" {
				k, _, _ := strings.Cut(comp, "=")
				want[k] = true
			}
		}
		for _, comp := range strings.Split(raw, "&") {
			k, _, _ := strings.Cut(comp, "=")
			if comp != "" && !want[k] {
				why = append(why, "key=relay-state:"+relayClass(relay)+" unexpected parameter "+k+" in the emitted URL")
			}
		}
		// message recoverable and well-formed with the configured fields; ID from >= 128 random bits
		if xmlb, err := inflateB64(msg); err != nil {
			why = append(why, "key=redirect-message SAMLRequest does not inflate")
		} else {
			var ar saml.AuthnRequest
			if err := xml.Unmarshal(xmlb, &ar); err != nil {
				why = append(why, "key=redirect-message SAMLRequest is not a well-formed AuthnRequest")
			} else {
				if ar.Issuer == nil || ar.Issuer.Value != spEntity || ar.Destination != endpoint || ar.AssertionConsumerServiceURL != acsURL {
					why = append(why, "key=redirect-message issuer/destination/ACS URL are not the configured ones")
				}
				if len(dr.all) < 16 || !strings.HasPrefix(ar.ID, "id-") || len(ar.ID) < 3+32 || !strings.HasPrefix(fmt.Sprintf("%x", dr.all), ar.ID[3:]) {
					why = append(why, "key=message-id ID is not derived from >=128 bits of the configured random source")
				}
				gotF := ""
				if ar.NameIDPolicy != nil && ar.NameIDPolicy.Format != nil {
					gotF = *ar.NameIDPolicy.Format
				}
				c.count("c12-name-id-format", string(s.AuthnNameIDFormat))
				if gotF != wantNameIDPolicy(s.AuthnNameIDFormat) {
					why = append(why, fmt.Sprintf("key=name-id-policy the configured name-ID format %q appears on the wire as %q", s.AuthnNameIDFormat, gotF))
				}
			}
			if idp != nil && endpoint == idpSSOURL {
				if method != "" {
					// an SP that signs is known to the IdP by the metadata it publishes itself (AuthnRequestsSigned and all)
					cp := *idp
					cp.ServiceProviderProvider = &rollingRegistry{md: s.Metadata()}
					idp = &cp
				}
				r, rerr := http.NewRequest("GET", u.String(), nil)
				var req *saml.IdpAuthnRequest
				err := rerr
				if rerr == nil {
					req, err = saml.NewIdpAuthnRequest(idp, r)
				}
				if err != nil {
					why = append(why, "key=idp-accepts the library's IdP cannot decode the request: "+err.Error())
				} else if err := req.Validate(); err != nil {
					why = append(why, "key=idp-accepts the library's IdP rejects the request: "+err.Error())
				} else if req.RelayState != relay {
					why = append(why, fmt.Sprintf("key=relay-state:%s the IdP reads RelayState %q, sent %q", relayClass(relay), req.RelayState, relay))
				}
			}
		}
		if method != "" {
			sa := rawParam(raw, "SigAlg")
			sg := rawParam(raw, "Signature")
			if len(sa) != 1 || len(sg) != 1 || sa[0] != method {
				why = append(why, "key=redirect-signature SigAlg/Signature parameters missing or duplicated")
			} else {
				sigAlg = sa[0]
				sigB, _ = base64.StdEncoding.DecodeString(sg[0])
				i := strings.Index(raw, "SAMLRequest=")
				j := strings.Index(raw, "&Signature=")
				if i < 0 || j < i {
					why = append(why, "key=redirect-signature cannot cut the signed octets from the URL")
				} else if !verifyDetached(s.Certificate.PublicKey, method, []byte(raw[i:j]), sigB) {
					tag := "noquery"
					if q0 != "" {
						tag = "endpoint-query"
					}
					why = append(why, "key=redirect-signature:"+tag+" the signature does not verify over SAMLRequest=…[&RelayState=…]&SigAlg=… as they appear in the URL")
				}
			}
		}
	} else if method != "" {
		// refusal is legitimate only for an unknown method or a method/key mismatch
		fam := "rsa"
		if strings.HasPrefix(keyName, "ec") {
			fam = "ecdsa"
		}
		known := false
		for _, km := range sigMethods[:8] {
			known = known || km == method
		}
		if known && strings.Contains(method, "#"+fam+"-") {
			why = append(why, "key=signing-refused a matching method/key pair was refused")
		}
	}
	toks := []string{encBytes([]byte(q0)), encBytes([]byte(msg)), encBytes([]byte(relay))}
	if method != "" && sigAlg != "" {
		toks = append(toks, "+", encBytes([]byte(sigAlg)), encBytes(sigB))
	} else {
		toks = append(toks, "-")
	}
	c.count("relay-class", relayClass(relay))
	c.count("endpoint-query", fmt.Sprint(q0 != ""))
	if u == nil {
		// refused: compare the refusal with the method/key table model instead
		kt := fmt.Sprintf("%T", s.Key)
		c.emit("signctx", []string{encStr(method), encStr(kt)}, impl, strings.Join(why, " | "))
		return
	}
	c.emit("redirect", toks, impl, strings.Join(why, " | "))
}

func relayClass(r string) string {
	switch {
	case r == "":
		return "empty"
	case strings.ContainsAny(r, "&=#;"):
		return "separators"
	case strings.ContainsAny(r, "+% "):
		return "plus-percent-blank"
	case len(r) > 80:
		return "long"
	}
	for _, ch := range r {
		if ch > 127 {
			return "non-ascii"
		}
	}
	if strings.ContainsAny(r, "\"'<>\t\n\r") {
		return "markup-control"
	}
	return "plain"
}

func (c *Ctx) logoutRedirect(endpoint, relay, nameID, keyName, method string, response bool) {
	s := c.spFor(endpoint, endpoint, keyName, method, false)
	dr := &detReader{c: c}
	saml.RandReader = dr
	now := baseTime
	saml.TimeNow = func() time.Time { return now }
	var u *url.URL
	key := "SAMLRequest"
	impl := safely(func() string {
		var err error
		if response {
			key = "SAMLResponse"
			u, err = s.MakeRedirectLogoutResponse("id-logoutreq", relay)
		} else {
			u, err = s.MakeRedirectLogoutRequest(nameID, relay)
		}
		if err != nil {
			return "err"
		}
		return encBytes([]byte(u.RawQuery))
	})
	var q0 string
	if i := strings.Index(endpoint, "?"); i >= 0 {
		q0 = endpoint[i+1:]
	}
	var why []string
	msg := ""
	if u != nil {
		raw := u.RawQuery
		if m := rawParam(raw, key); len(m) != 1 {
			why = append(why, fmt.Sprintf("key=logout-redirect-params %d %s parameters", len(m), key))
		} else {
			msg = m[0]
		}
		rs := rawParam(raw, "RelayState")
		if relay == "" && len(rs) != 0 || relay != "" && (len(rs) != 1 || rs[0] != relay) {
			why = append(why, fmt.Sprintf("key=logout-relay-state:%s RelayState does not round-trip: sent %q, URL carries %q", relayClass(relay), relay, rs))
		}
		if xmlb, err := inflateB64(msg); err != nil {
			why = append(why, "key=logout-message message does not inflate")
		} else {
			doc := etree.NewDocument()
			if err := doc.ReadFromBytes(xmlb); err != nil || doc.Root() == nil {
				why = append(why, "key=logout-message message is not well-formed XML")
			} else {
				if !response {
					var lr saml.LogoutRequest
					if err := xml.Unmarshal(xmlb, &lr); err != nil || lr.NameID == nil || lr.NameID.Value != nameID || lr.Destination != endpoint {
						why = append(why, fmt.Sprintf("key=logout-message:nameid name ID / destination do not round-trip (sent %q)", nameID))
					}
				}
				if method != "" {
					if sig := doc.Root().FindElement("./Signature"); sig == nil {
						why = append(why, "key=logout-unsigned signing is configured but the logout message carries no signature")
					} else if err := verifyEnveloped(doc.Root(), s.Certificate); err != nil {
						why = append(why, "key=logout-signature enveloped signature does not verify: "+err.Error())
					}
				}
			}
		}
	}
	// existing endpoint parameters, as net/url sees them, in the order given
	var ex []string
	n := 0
	for _, comp := range strings.Split(q0, "&") {
		if comp == "" {
			continue
		}
		k, v, _ := strings.Cut(comp, "=")
		ku, _ := url.QueryUnescape(k)
		vu, _ := url.QueryUnescape(v)
		ex = append(ex, encBytes([]byte(ku)), encBytes([]byte(vu)))
		n++
	}
	toks := joinToks([]string{fmt.Sprint(n)}, ex, []string{encBytes([]byte(key)), encBytes([]byte(msg)), encBytes([]byte(relay))})
	c.emit("logoutredirect", toks, impl, strings.Join(why, " | "))
}

// verifyEnveloped validates an enveloped signature with a fresh goxmldsig validation context rooted at cert only.
func verifyEnveloped(el *etree.Element, cert *x509.Certificate) error {
	ctx := dsig.NewDefaultValidationContext(&dsig.MemoryX509CertificateStore{Roots: []*x509.Certificate{cert}})
	ctx.IdAttribute = "ID"
	ctx.Clock = dsig.NewFakeClockAt(baseTime)
	_, err := ctx.Validate(el)
	return err
}

var formFieldRe = regexp.MustCompile(`name="(SAMLRequest|SAMLResponse)" value="([^"]*)"`)

func formMessage(html []byte) ([]byte, error) {
	m := formFieldRe.FindSubmatch(html)
	if m == nil {
		return nil, fmt.Errorf("no SAMLRequest/SAMLResponse field")
	}
	v := strings.NewReplacer("&#43;", "+", "&#61;", "=", "&amp;", "&").Replace(string(m[2]))
	return base64.StdEncoding.DecodeString(v)
}

// middlewareStartFlows: the requests the samlsp middleware emits when it starts a login — whatever binding it is told to prefer
// and whatever bindings the IdP offers: with request signing configured the emitted message verifies under the published
// certificate (redirect: over the octets of the URL; POST: enveloped), or the reply is an error; never an unsigned message.
func (c *Ctx) middlewareStartFlows() {
	now := baseTime
	saml.TimeNow = func() time.Time { return now }
	root := "https://sp.example.com"
	for _, kc := range []struct{ key, method string }{{"sp", dsig.RSASHA256SignatureMethod}, {"ec256", dsig.ECDSASHA256SignatureMethod}} {
		for _, prefer := range []string{"", saml.HTTPRedirectBinding, saml.HTTPPostBinding} {
			for _, offer := range []string{"redirect", "post", "both"} {
				var eps []saml.Endpoint
				if offer != "post" {
					eps = append(eps, saml.Endpoint{Binding: saml.HTTPRedirectBinding, Location: idpSSOURL})
				}
				if offer != "redirect" {
					eps = append(eps, saml.Endpoint{Binding: saml.HTTPPostBinding, Location: idpSSOURL + "-post"})
				}
				k := c.key(kc.key)
				m, err := samlsp.New(samlsp.Options{URL: mustURL(root), Key: k.Key, Certificate: k.Cert, SignRequest: true,
					IDPMetadata: &saml.EntityDescriptor{EntityID: idpEntity, IDPSSODescriptors: []saml.IDPSSODescriptor{{SingleSignOnServices: eps}}}})
				must(err)
				m.Binding = prefer
				m.ServiceProvider.SignatureMethod = kc.method
				saml.RandReader = &detReader{c: c}
				why := ""
				res := safely(func() string {
					w := httptest.NewRecorder()
					r := httptest.NewRequest("GET", root+"/protected", nil)
					m.HandleStartAuthFlow(w, r)
					cert := k.Cert
					switch {
					case w.Code == 302:
						u, err := url.Parse(w.Header().Get("Location"))
						if err != nil {
							return "bad-location"
						}
						raw := u.RawQuery
						sg := rawParam(raw, "Signature")
						i, j := strings.Index(raw, "SAMLRequest="), strings.Index(raw, "&Signature=")
						if len(sg) != 1 || i < 0 || j < i {
							return "redirect-unsigned"
						}
						sigB, _ := base64.StdEncoding.DecodeString(sg[0])
						if !verifyDetached(cert.PublicKey, kc.method, []byte(raw[i:j]), sigB) {
							return "redirect-signature-invalid"
						}
						return "redirect-signed"
					case w.Code == 200:
						xmlb, err := formMessage(w.Body.Bytes())
						if err != nil {
							return "post-no-message"
						}
						doc := etree.NewDocument()
						if doc.ReadFromBytes(xmlb) != nil || doc.Root() == nil {
							return "post-unreadable"
						}
						if doc.Root().FindElement("./Signature") == nil {
							return "post-unsigned"
						}
						if err := verifyEnveloped(doc.Root(), cert); err != nil {
							return "post-signature-invalid"
						}
						return "post-signed"
					}
					return fmt.Sprintf("error-%d", w.Code)
				})
				if strings.Contains(res, "unsigned") || strings.Contains(res, "invalid") || strings.HasPrefix(res, "panic") || strings.HasPrefix(res, "post-no") || strings.HasPrefix(res, "post-unr") || res == "bad-location" {
					why = fmt.Sprintf("key=unsigned-message:middleware request signing is configured (%s), the middleware prefers %q, the IdP offers %s: it emitted %s", kc.method, prefer, offer, res)
				}
				c.count("c13-middleware-start", fmt.Sprintf("prefer=%s offer=%s -> %s", prefer[strings.LastIndex(prefer, ":")+1:], offer, res))
				c.emitOneWay("mwstart", []string{encStr(kc.key), encStr(prefer), encStr(offer)}, res, why)
			}
		}
	}
}

// xmlSignedMessages: POST-binding AuthnRequest, logout messages and ArtifactResolve carry an enveloped signature that
// verifies under the certificate the SP publishes, or the call is refused.
func (c *Ctx) xmlSignedMessages() {
	keys := []string{"sp", "rsa1024", "ec256", "ec384", "ec521"}
	for _, m := range sigMethods {
		for ki, k := range keys {
			s := c.spFor(idpEndpoints[0], idpEndpoints[0], k, m, true)
			noSLO := (ki+len(m))%2 == 1
			if noSLO {
				// an IdP that publishes no single-logout endpoint: logout messages have no Destination, and must still verify
				s.IDPMetadata.IDPSSODescriptors[0].SingleLogoutServices = nil
			}
			c.count("c13-idp-slo-endpoints", map[bool]string{true: "none", false: "both"}[noSLO])
			// the optional request settings (ForceAuthn, RequestedAuthnContext, name-ID format): whatever ends up in the emitted
			// element is covered by its signature
			switch (ki + 2*len(m)) % 3 {
			case 0:
				t := true
				s.ForceAuthn = &t
				c.count("c13-request-options", "ForceAuthn=true")
			case 1:
				f := false
				s.ForceAuthn = &f
				s.RequestedAuthnContext = &saml.RequestedAuthnContext{Comparison: "exact", AuthnContextClassRef: "urn:oasis:names:tc:SAML:2.0:ac:classes:PasswordProtectedTransport"}
				s.AuthnNameIDFormat = saml.EmailAddressNameIDFormat
				c.count("c13-request-options", "ForceAuthn=false+RequestedAuthnContext+email")
			default:
				c.count("c13-request-options", "defaults")
			}
			saml.RandReader = &detReader{c: c}
			now := baseTime
			saml.TimeNow = func() time.Time { return now }
			kinds := []struct {
				name string
				mk   func() ([]byte, error)
			}{
				{"AuthnRequest/POST", func() ([]byte, error) {
					h, err := s.MakePostAuthenticationRequest("rs")
					if err != nil {
						return nil, err
					}
					return formMessage(h)
				}},
				{"LogoutRequest/POST", func() ([]byte, error) {
					h, err := s.MakePostLogoutRequest("alice", "rs")
					if err != nil {
						return nil, err
					}
					return formMessage(h)
				}},
				{"LogoutResponse/POST", func() ([]byte, error) {
					h, err := s.MakePostLogoutResponse("id-x", "rs")
					if err != nil {
						return nil, err
					}
					return formMessage(h)
				}},
				{"LogoutRequest/Redirect", func() ([]byte, error) {
					u, err := s.MakeRedirectLogoutRequest("alice", "rs")
					if err != nil {
						return nil, err
					}
					return inflateB64(u.Query().Get("SAMLRequest"))
				}},
				{"LogoutRequest/direct-no-destination", func() ([]byte, error) {
					r, err := s.MakeLogoutRequest("", "alice")
					if err != nil {
						return nil, err
					}
					return elBytes(r.Element()), nil
				}},
				{"LogoutResponse/direct-no-destination", func() ([]byte, error) {
					r, err := s.MakeLogoutResponse("", "id-x")
					if err != nil {
						return nil, err
					}
					return elBytes(r.Element()), nil
				}},
				// message contents with characters the writer has to escape in attribute values and text, several of each in one
				// message (carriage returns, line feeds, tabs, quotes): what is emitted is what was signed
				{"LogoutResponse/POST/two-CRs-in-InResponseTo", func() ([]byte, error) {
					h, err := s.MakePostLogoutResponse("id\r\n-x\r\n\t\"<&", "rs")
					if err != nil {
						return nil, err
					}
					return formMessage(h)
				}},
				{"LogoutRequest/POST/CRs-in-name-id", func() ([]byte, error) {
					h, err := s.MakePostLogoutRequest("al\rice\r\n@example.com\r", "rs")
					if err != nil {
						return nil, err
					}
					return formMessage(h)
				}},
				{"ArtifactResolve", func() ([]byte, error) {
					r, err := s.MakeArtifactResolveRequest("artifact")
					if err != nil {
						return nil, err
					}
					return elBytes(r.Element()), nil
				}},
			}
			for _, kd := range kinds {
				orc := ""
				impl := safely(func() string {
					xmlb, err := kd.mk()
					if err != nil {
						return "err"
					}
					doc := etree.NewDocument()
					if err := doc.ReadFromBytes(xmlb); err != nil || doc.Root() == nil {
						orc = "key=signed-message:" + kd.name + " emitted message is not well-formed"
						return "ok"
					}
					if doc.Root().FindElement("./Signature") == nil {
						orc = "key=unsigned-message:" + kd.name + " signing is configured but the emitted message carries no signature"
					} else if err := verifyEnveloped(doc.Root(), s.Certificate); err != nil {
						orc = "key=signed-message:" + kd.name + " enveloped signature does not verify under the SP certificate: " + err.Error()
					}
					return "ok"
				})
				c.count("c13-message-kind", kd.name)
				c.emit("signctx", []string{encStr(m), encStr(fmt.Sprintf("%T", s.Key))}, impl, orc)
			}
			// published metadata advertises the signing certificate
			md := s.Metadata()
			found := false
			for _, kdsc := range md.SPSSODescriptors[0].KeyDescriptors {
				if kdsc.Use == "signing" && len(kdsc.KeyInfo.X509Data.X509Certificates) > 0 &&
					kdsc.KeyInfo.X509Data.X509Certificates[0].Data == base64.StdEncoding.EncodeToString(s.Certificate.Raw) {
					found = true
				}
			}
			if !found || md.SPSSODescriptors[0].AuthnRequestsSigned == nil || !*md.SPSSODescriptors[0].AuthnRequestsSigned {
				c.emit("signctx", []string{encStr(sigMethods[1]), encStr("*rsa.PrivateKey")}, "ok", "key=metadata-signing-cert published metadata does not advertise the signing certificate / AuthnRequestsSigned")
			}
		}
	}
}

func (c *Ctx) codecCases(n int) {
	// the byte-level codec models against net/url and encoding/base64
	for i := 0; i < n; i++ {
		var b []byte
		switch c.rng.Intn(4) {
		case 0:
			b = c.randBytes(c.rng.Intn(12))
		case 1:
			b = []byte(relayStates[c.rng.Intn(len(relayStates))])
		case 2:
			for j := c.rng.Intn(10); j > 0; j-- {
				alpha := "&=;%+ #?/aZ09-_.~\x00\xff"
				b = append(b, alpha[c.rng.Intn(len(alpha))])
			}
		default:
			b = c.randBytes(c.rng.Intn(200))
		}
		c.emit("qesc", []string{encBytes(b)}, encBytes([]byte(url.QueryEscape(string(b)))), "")
		u, err := url.QueryUnescape(string(b))
		if err != nil {
			c.emit("qunesc", []string{encBytes(b)}, "err", "")
		} else {
			c.emit("qunesc", []string{encBytes(b)}, "ok "+encBytes([]byte(u)), "")
		}
		c.emit("b64enc", []string{encBytes(b)}, encBytes([]byte(base64.StdEncoding.EncodeToString(b))), "")
		// decoding of mutated encodings
		e := []byte(base64.StdEncoding.EncodeToString(b))
		if len(e) > 0 && c.chance(0.5) {
			switch c.rng.Intn(5) {
			case 0:
				e = e[:c.rng.Intn(len(e))]
			case 1:
				e[c.rng.Intn(len(e))] = "=\n\r -_*A"[c.rng.Intn(8)]
			case 2:
				p := c.rng.Intn(len(e))
				e = append(e[:p], append([]byte("\n"), e[p:]...)...)
			case 3:
				e = append(e, '=')
			default:
				e = append(e, "QQ=="...)
			}
		}
		d, err := base64.StdEncoding.DecodeString(string(e))
		if err != nil {
			c.emit("b64dec", []string{encBytes(e)}, "err", "")
		} else {
			c.emit("b64dec", []string{encBytes(e)}, "ok "+encBytes(d), "")
		}
		// ParseQuery on query-looking strings
		var q []byte
		for j := c.rng.Intn(5); j > 0; j-- {
			if len(q) > 0 {
				q = append(q, '&')
			}
			q = append(q, []byte(url.QueryEscape(relayStates[c.rng.Intn(len(relayStates))]))...)
			if c.chance(0.8) {
				q = append(q, '=')
				q = append(q, []byte(url.QueryEscape(relayStates[c.rng.Intn(len(relayStates))]))...)
			}
		}
		if c.chance(0.3) && len(q) > 0 {
			q[c.rng.Intn(len(q))] = "&=;%+"[c.rng.Intn(5)]
		}
		vals, perr := parseQueryOrdered(string(q))
		res := "ok"
		if perr {
			res = "partial"
		}
		res += " " + fmt.Sprint(len(vals)/2)
		for _, v := range vals {
			res += " " + encBytes([]byte(v))
		}
		c.emit("parsequery", []string{encBytes(q)}, res, "")
	}
}

// parseQueryOrdered: url.ParseQuery loses the order between keys; recover the order from the raw string and take
// keys/values and the error flag from net/url itself.
func parseQueryOrdered(q string) (flat []string, hadErr bool) {
	m, err := url.ParseQuery(q)
	hadErr = err != nil
	idx := map[string]int{}
	for _, comp := range strings.Split(q, "&") {
		if comp == "" || strings.Contains(comp, ";") {
			continue
		}
		k, _, _ := strings.Cut(comp, "=")
		ku, e1 := url.QueryUnescape(k)
		if e1 != nil {
			continue
		}
		vs := m[ku]
		if idx[ku] < len(vs) {
			// net/url drops pairs whose value has a bad escape; detect by re-unescaping
			_, v, _ := strings.Cut(comp, "=")
			if _, e2 := url.QueryUnescape(v); e2 != nil {
				continue
			}
			flat = append(flat, ku, vs[idx[ku]])
			idx[ku]++
		}
	}
	return
}

func (c *Ctx) genC12() {
	reg := registry{spEntity: {kind: "f", md: mdEntity{EntityID: spEntity, Descs: []mdDesc{{ACS: []mdEndpoint{{Binding: saml.HTTPPostBinding, Location: acsURL, Index: 1}}}}}}}
	idp := c.newIDP(reg)
	for _, ep := range idpEndpoints {
		for _, rs := range relayStates {
			c.authnRedirect(ep, rs, "sp", "", idp)
			c.logoutRedirect(ep, rs, "alice@example.com", "sp", "", false)
			c.logoutRedirect(ep, rs, "alice@example.com", "sp", "", true)
		}
	}
	for _, nid := range relayStates {
		c.logoutRedirect(idpEndpoints[0], "rs", nid, "sp", "", false)
	}
	// signed requests too: the IdP of this library parses and validates what the SP of this library signs and sends
	for _, m := range []string{dsig.RSASHA1SignatureMethod, dsig.RSASHA256SignatureMethod} {
		for _, rs := range []string{"", "rs", "a b&c=d"} {
			c.authnRedirect(idpSSOURL, rs, "sp", m, idp)
		}
	}
	// long name IDs of multi-byte characters, shifted byte by byte: whatever internal buffer size the serialisation goes
	// through (4 kB in etree's writer), some character straddles its boundary in one of the variants
	for _, ch := range []string{"é", "€", "𝄞", "\u0085", "\u2028"} {
		for pad := 0; pad < 4; pad++ {
			nid := strings.Repeat("a", pad) + strings.Repeat(ch, 9000/len(ch))
			c.count("c12-long-nameid", fmt.Sprintf("%d-byte chars", len(ch)))
			c.logoutRedirect(idpEndpoints[0], "rs", nid, "sp", "", false)
		}
	}
	n := 300
	if !c.quick() {
		n = 6000
	}
	for i := 0; i < n; i++ {
		var sb strings.Builder
		for j := c.rng.Intn(30); j > 0; j-- {
			sb.WriteString([]string{"&", "=", "#", "+", "%", " ", "a", "Z", "0", "é", "€", "𝄞", "\"", "'", "<", ">", ";", "?", "/", "%2", "%41", "\t"}[c.rng.Intn(22)])
		}
		c.authnRedirect(idpEndpoints[c.rng.Intn(len(idpEndpoints))], sb.String(), "sp", "", idp)
		if c.chance(0.3) {
			c.logoutRedirect(idpEndpoints[c.rng.Intn(len(idpEndpoints))], sb.String(), "n", "sp", "", c.chance(0.5))
		}
	}
	// the library's default random source over a long sequence of creations: every ID carries its full 160 random bits (none
	// ends in a run of zero bytes), none repeats
	{
		saved := saml.RandReader
		saml.RandReader = defaultSAMLRand
		s := c.spFor(idpSSOURL, idpSSOURL, "sp", "", false)
		ids := map[string]bool{}
		orc := ""
		for i := 0; i < 120 && orc == ""; i++ {
			r, err := s.MakeAuthenticationRequest(idpSSOURL, saml.HTTPRedirectBinding, saml.HTTPPostBinding)
			if err != nil {
				orc = "key=message-id-default-source MakeAuthenticationRequest fails under the default random source: " + err.Error()
				break
			}
			switch {
			case !strings.HasPrefix(r.ID, "id-") || len(r.ID) < 3+32:
				orc = fmt.Sprintf("key=message-id-default-source creation %d: ID %q is not id- followed by at least 128 bits in hex", i+1, r.ID)
			case strings.HasSuffix(r.ID, "0000000000000000"):
				orc = fmt.Sprintf("key=message-id-default-source creation %d: ID %q ends in eight zero bytes: not all of it was drawn from the random source", i+1, r.ID)
			case ids[r.ID]:
				orc = fmt.Sprintf("key=message-id-default-source creation %d: ID %q repeats", i+1, r.ID)
			}
			ids[r.ID] = true
		}
		saml.RandReader = saved
		c.count("c12-default-random-source", "120 creations")
		c.emitOneWay("defaultids", nil, "ok", orc)
	}
	// ids: sequences of creations draw from distinct stream positions
	seen := map[string]bool{}
	for i := 0; i < 200; i++ {
		r := c.randBytes(20)
		id := fmt.Sprintf("id-%x", r)
		orc := ""
		if seen[id] {
			orc = "key=message-id duplicate id"
		}
		seen[id] = true
		c.emit("msgid", []string{encBytes(r)}, encBytes([]byte(id)), orc)
	}
	ps := 150
	if !c.quick() {
		ps = 4000
	}
	c.postSequences(ps)
	c.attributeValues()
	m := 800
	if !c.quick() {
		m = 20000
	}
	c.codecCases(m)
}

// attributeValues: "any request ID and any configuration … decodes to a well-formed message with the configured issuer,
// destination … and the given IDs": strings the SP writes into XML *attribute* positions (InResponseTo, Destination,
// NameID qualifiers) with every character an attribute value needs escaped or must not contain raw
func (c *Ctx) attributeValues() {
	now := baseTime
	saml.TimeNow = func() time.Time { return now }
	hostile := []string{"]]>", "a]]>b", "]]", ">", "<", "&", "&amp;", "\"", "'", "\r", "x\ry", "\r\n", "\n", "\t", " lead", "trail ", "a  b", "é€𝄞", "%5D%5D%3E", "]]>]]>"}
	for _, h := range hostile {
		for _, post := range []bool{false, true} {
			ep := "https://idp.example.com/saml/sso?x=" + h
			if _, err := url.Parse(ep); err != nil {
				ep = "https://idp.example.com/saml/sso?x=1" // not a URL at all (control character): outside "all IdP endpoint URLs"
			}
			s := c.spFor(ep, ep, "sp", "", post)
			s.EntityID = "https://sp.example.com/" + h
			saml.RandReader = &detReader{c: c}
			reqID := "id-" + h
			type want struct{ kind, attr, val string }
			var why string
			decode := func(kind string, form []byte, u *url.URL, field string) []byte {
				var xmlb []byte
				var err error
				if form != nil {
					v, n := inputValOf(form, field)
					if n != 1 {
						err = fmt.Errorf("%d fields", n)
					} else {
						xmlb, err = base64.StdEncoding.DecodeString(v)
					}
				} else {
					xmlb, err = inflateB64(u.Query().Get(field))
				}
				if err != nil && why == "" {
					why = fmt.Sprintf("key=attribute-value:%s the emitted %s (binding post=%v, hostile %q) does not decode: %v", kind, kind, post, h, err)
				}
				return xmlb
			}
			check := func(kind string, xmlb []byte, get func() (string, error), wantVal, what string) {
				if xmlb == nil || why != "" {
					return
				}
				got, err := get()
				if err != nil {
					why = fmt.Sprintf("key=attribute-value:%s the emitted %s is not well-formed when %s is %q: %v", kind, kind, what, wantVal, err)
				} else if got != wantVal {
					why = fmt.Sprintf("key=attribute-value:%s %s of the emitted %s reads %q, given %q", kind, what, kind, got, wantVal)
				}
			}
			impl := safely(func() string {
				// LogoutResponse: the request ID it answers
				{
					var xmlb []byte
					if post {
						f, err := s.MakePostLogoutResponse(reqID, "rs")
						if err != nil {
							return "err"
						}
						xmlb = decode("LogoutResponse", f, nil, "SAMLResponse")
					} else {
						u, err := s.MakeRedirectLogoutResponse(reqID, "rs")
						if err != nil {
							return "err"
						}
						xmlb = decode("LogoutResponse", nil, u, "SAMLResponse")
					}
					var lr saml.LogoutResponse
					check("LogoutResponse", xmlb, func() (string, error) { err := xml.Unmarshal(xmlb, &lr); return lr.InResponseTo, err }, reqID, "InResponseTo")
					check("LogoutResponse", xmlb, func() (string, error) { return lr.Destination, nil }, ep, "Destination")
				}
				// LogoutRequest: the qualifiers of the name ID are the entity IDs
				{
					var xmlb []byte
					if post {
						f, err := s.MakePostLogoutRequest("alice", "rs")
						if err != nil {
							return "err"
						}
						xmlb = decode("LogoutRequest", f, nil, "SAMLRequest")
					} else {
						u, err := s.MakeRedirectLogoutRequest("alice", "rs")
						if err != nil {
							return "err"
						}
						xmlb = decode("LogoutRequest", nil, u, "SAMLRequest")
					}
					var lq saml.LogoutRequest
					check("LogoutRequest", xmlb, func() (string, error) {
						err := xml.Unmarshal(xmlb, &lq)
						if err == nil && lq.NameID == nil {
							err = fmt.Errorf("no NameID")
						}
						if err != nil {
							return "", err
						}
						return lq.NameID.SPNameQualifier, nil
					}, s.EntityID, "NameID/@SPNameQualifier")
					check("LogoutRequest", xmlb, func() (string, error) { return lq.Destination, nil }, ep, "Destination")
				}
				// AuthnRequest: destination and ACS URL
				{
					var xmlb []byte
					if post {
						f, err := s.MakePostAuthenticationRequest("rs")
						if err != nil {
							return "err"
						}
						xmlb = decode("AuthnRequest", f, nil, "SAMLRequest")
					} else {
						u, err := s.MakeRedirectAuthenticationRequest("rs")
						if err != nil {
							return "err"
						}
						xmlb = decode("AuthnRequest", nil, u, "SAMLRequest")
					}
					var ar saml.AuthnRequest
					check("AuthnRequest", xmlb, func() (string, error) { err := xml.Unmarshal(xmlb, &ar); return ar.Destination, err }, ep, "Destination")
					check("AuthnRequest", xmlb, func() (string, error) {
						if ar.Issuer == nil {
							return "", fmt.Errorf("no Issuer")
						}
						return ar.Issuer.Value, nil
					}, s.EntityID, "Issuer")
				}
				return "ok"
			})
			if impl != "ok" && why == "" {
				why = "key=attribute-value:refused a message creation failed or panicked with hostile string " + strconv.Quote(h) + ": " + impl
			}
			c.count("c12-attribute-value-binding", map[bool]string{true: "post", false: "redirect"}[post])
			c.emitOneWay("attrvalues", []string{encStr(h), encBool(post)}, impl, why)
		}
	}
}

// postSequences: "the POST form's field base64-decodes to a well-formed message with the configured issuer, destination
// … and the given IDs, and RelayState round-trips byte-for-byte … for all sequences of message creations". A sequence
// of 1–6 creations of the three message kinds on one ServiceProvider; every form is kept and all of them are read
// only after the last creation (as a server that has several replies in flight does).
func (c *Ctx) postSequences(n int) {
	now := baseTime
	saml.TimeNow = func() time.Time { return now }
	type made struct {
		kind, id, relay, field, dest string
		out, snap                    []byte
	}
	for i := 0; i < n; i++ {
		ep := idpEndpoints[c.rng.Intn(len(idpEndpoints))]
		method := ""
		if c.chance(0.3) {
			method = dsig.RSASHA256SignatureMethod
		}
		s := c.spFor(ep, ep, "sp", method, true)
		saml.RandReader = &detReader{c: c}
		L := 1 + c.rng.Intn(6)
		var ms []made
		var kinds []string
		why := ""
		impl := safely(func() string {
			for j := 0; j < L; j++ {
				relay := relayStates[c.rng.Intn(len(relayStates))]
				var m made
				switch c.rng.Intn(3) {
				case 0:
					req, err := s.MakeAuthenticationRequest(ep, saml.HTTPPostBinding, saml.HTTPPostBinding)
					if err != nil {
						return "err"
					}
					m = made{kind: "AuthnRequest", id: req.ID, relay: relay, field: "SAMLRequest", dest: ep, out: req.Post(relay)}
				case 1:
					req, err := s.MakeLogoutRequest(ep, relayStates[c.rng.Intn(len(relayStates))]+"n")
					if err != nil {
						return "err"
					}
					m = made{kind: "LogoutRequest", id: req.ID, relay: relay, field: "SAMLRequest", dest: ep, out: req.Post(relay)}
				default:
					resp, err := s.MakeLogoutResponse(ep, fmt.Sprintf("id-req-%d", j))
					if err != nil {
						return "err"
					}
					m = made{kind: "LogoutResponse", id: resp.ID, relay: relay, field: "SAMLResponse", dest: ep, out: resp.Post(relay)}
				}
				m.snap = append([]byte{}, m.out...)
				ms = append(ms, m)
				kinds = append(kinds, m.kind)
			}
			return "ok"
		})
		if impl == "ok" {
			for j, m := range ms {
				tag := fmt.Sprintf("key=post-form-sequence creation #%d of %d (%s, id %s)", j+1, len(ms), m.kind, m.id)
				if !bytes.Equal(m.out, m.snap) {
					why = tag + ": the returned form changed after later messages were created"
					break
				}
				v, nv := inputValOf(m.out, m.field)
				xmlb, err := base64.StdEncoding.DecodeString(v)
				if nv != 1 || err != nil {
					why = tag + ": the form does not carry exactly one base64 " + m.field + " field"
					break
				}
				var hdr struct {
					XMLName     xml.Name
					ID          string `xml:",attr"`
					Destination string `xml:",attr"`
					Issuer      string `xml:"urn:oasis:names:tc:SAML:2.0:assertion Issuer"`
				}
				if err := xml.Unmarshal(xmlb, &hdr); err != nil {
					why = tag + ": the field does not decode to a well-formed message"
					break
				}
				if hdr.XMLName.Local != m.kind || hdr.ID != m.id || hdr.Destination != m.dest || hdr.Issuer != spEntity {
					why = fmt.Sprintf("%s: the field decodes to %s id %q destination %q issuer %q", tag, hdr.XMLName.Local, hdr.ID, hdr.Destination, hdr.Issuer)
					break
				}
				// an HTML parser turns CR and CRLF in the document into LF before anything else (input-stream preprocessing),
				// so a hidden field cannot carry a bare CR literally; that is HTML, not the library, and is left out
				nl := strings.NewReplacer("\r\n", "\n", "\r", "\n")
				rs, nrs := inputValOf(m.out, "RelayState")
				if nrs != 1 || rs != nl.Replace(m.relay) {
					why = fmt.Sprintf("%s: RelayState field reads %q (%d fields), given %q", tag, rs, nrs, m.relay)
					break
				}
			}
		} else {
			why = "key=post-form-sequence a POST-binding message creation failed or panicked: " + impl
		}
		c.count("c12-post-sequence-length", fmt.Sprint(L))
		c.count("c12-post-sequence-signed", fmt.Sprint(method != ""))
		c.emitOneWay("postseq", encStrListRaw(kinds), impl, why)
	}
}

var sigMethods = []string{dsig.RSASHA1SignatureMethod, dsig.RSASHA256SignatureMethod, dsig.RSASHA384SignatureMethod, dsig.RSASHA512SignatureMethod,
	dsig.ECDSASHA1SignatureMethod, dsig.ECDSASHA256SignatureMethod, dsig.ECDSASHA384SignatureMethod, dsig.ECDSASHA512SignatureMethod,
	"http://www.w3.org/2001/04/xmldsig-more#rsa-md5", "bogus",
	// near misses of supported identifiers: not one of the eight, so unknown
	dsig.RSASHA256SignatureMethod + "\n", " " + dsig.RSASHA1SignatureMethod, dsig.ECDSASHA256SignatureMethod + "\t", dsig.RSASHA256SignatureMethod + " ",
	"HTTP://WWW.W3.ORG/2001/04/XMLDSIG-MORE#RSA-SHA256", dsig.RSASHA256SignatureMethod + "#", strings.TrimPrefix(dsig.RSASHA256SignatureMethod, "http://www.w3.org/2001/04/xmldsig-more")}

func knownMethod(m string) bool {
	for _, km := range sigMethods[:8] {
		if km == m {
			return true
		}
	}
	return false
}

func (c *Ctx) genC13() {
	keys := []string{"sp", "rsa1024", "rsa3072", "rsa4096", "ec256", "ec384", "ec521"}
	for _, m := range sigMethods {
		for _, k := range keys {
			if c.quick() && (k == "rsa3072" || k == "rsa4096") && !strings.HasSuffix(m, "sha256") {
				continue
			}
			for _, ep := range idpEndpoints[:2] {
				for _, rs := range []string{"", "rs-1", "a&b=c#frag d+e%"} {
					c.authnRedirect(ep, rs, k, m, nil)
				}
			}
		}
	}
	// the method/key table itself
	for _, m := range sigMethods {
		for _, kt := range []string{"*rsa.PrivateKey", "*ecdsa.PrivateKey", "ed25519.PrivateKey"} {
			key := map[string]string{"*rsa.PrivateKey": "sp", "*ecdsa.PrivateKey": "ec256"}[kt]
			if key == "" {
				continue
			}
			s := c.spFor(idpEndpoints[0], idpEndpoints[0], key, m, false)
			impl := safely(func() string {
				if _, err := saml.GetSigningContext(s); err != nil {
					return "err"
				}
				return "ok"
			})
			orc := ""
			if impl == "ok" && !knownMethod(m) {
				orc = fmt.Sprintf("key=unknown-method-accepted a signing context was built for the unknown signature method %q", m)
			}
			c.emit("signctx", []string{encStr(m), encStr(kt)}, impl, orc)
		}
	}
	c.xmlSignedMessages()
	c.middlewareStartFlows()
	c.keyRotation()
	c.artifactWire()
}

// wireRT is the IdP's artifact endpoint as the SP's HTTP client sees it. Before it reads the request body it lets the
// same process do other work that serialises XML (as a busy server does between building a request and the transport
// writing it out); then it checks the ArtifactResolve that actually arrives.
type wireRT struct {
	before func()
	check  func(body []byte)
}

func (rt *wireRT) RoundTrip(req *http.Request) (*http.Response, error) {
	if rt.before != nil {
		rt.before()
	}
	body, _ := io.ReadAll(req.Body)
	rt.check(body)
	return &http.Response{StatusCode: 500, Status: "500 X", Body: io.NopCloser(strings.NewReader("no")), Header: http.Header{}, Request: req}, nil
}

// artifactWire: "for … artifact resolution as an enveloped XML signature over the emitted element" — the element as it is
// emitted on the wire by ParseResponse(SAMLart=…), not only as MakeArtifactResolveRequest returns it
func (c *Ctx) artifactWire() {
	now := baseTime
	saml.TimeNow = func() time.Time { return now }
	for _, kc := range []struct{ key, method string }{{"sp", dsig.RSASHA256SignatureMethod}, {"sp", dsig.RSASHA1SignatureMethod}, {"ec256", dsig.ECDSASHA256SignatureMethod}, {"ec384", dsig.ECDSASHA512SignatureMethod}} {
		for _, busy := range []string{"idle", "parse", "messages", "both"} {
			s := c.spFor(idpEndpoints[0], idpEndpoints[0], kc.key, kc.method, true)
			s.IDPMetadata.IDPSSODescriptors[0].ArtifactResolutionServices = []saml.Endpoint{{Binding: saml.SOAPBinding, Location: "https://idp.example.com/saml/artifact"}}
			saml.RandReader = &detReader{c: c}
			other := c.spFor(idpEndpoints[1], idpEndpoints[1], "rsa1024", dsig.RSASHA256SignatureMethod, true)
			why := ""
			seen := false
			rt := &wireRT{check: func(body []byte) {
				seen = true
				doc := etree.NewDocument()
				if err := doc.ReadFromBytes(body); err != nil || doc.Root() == nil {
					why = "key=signed-message-on-the-wire:ArtifactResolve the request body that reaches the IdP is not well-formed XML"
					return
				}
				ar := doc.Root().FindElement("//ArtifactResolve")
				if ar == nil {
					why = "key=signed-message-on-the-wire:ArtifactResolve the request body that reaches the IdP holds no ArtifactResolve"
				} else if ar.FindElement("./Signature") == nil {
					why = "key=unsigned-message:ArtifactResolve signing is configured but the ArtifactResolve on the wire carries no signature"
				} else if err := verifyEnveloped(ar.Copy(), s.Certificate); err != nil {
					why = "key=signed-message-on-the-wire:ArtifactResolve the enveloped signature of the ArtifactResolve that reaches the IdP does not verify under the SP certificate: " + err.Error()
				} else if a := ar.FindElement("./Artifact"); a == nil || a.Text() != "AAQAAMFbLinlXaCM+FIxiDwGOLAy2T71gbpO7ZhNzAgEANlB90ECfpNEVLg=" {
					why = "key=signed-message-on-the-wire:ArtifactResolve the artifact on the wire is not the one delivered"
				}
			}}
			if busy != "idle" {
				rt.before = func() {
					safely(func() string {
						if busy == "parse" || busy == "both" {
							_, _ = other.ParseXMLResponse([]byte(`<samlp:Response xmlns:samlp="urn:oasis:names:tc:SAML:2.0:protocol" xmlns:saml="urn:oasis:names:tc:SAML:2.0:assertion" ID="id-unrelated" Version="2.0" IssueInstant="2024-05-17T12:30:45Z" Destination="https://sp.example.com/saml/acs"><saml:Issuer>https://idp.example.com/saml/metadata</saml:Issuer><samlp:Status><samlp:StatusCode Value="urn:oasis:names:tc:SAML:2.0:status:Success"/></samlp:Status><saml:Assertion ID="id-a" Version="2.0" IssueInstant="2024-05-17T12:30:45Z"><saml:Issuer>x</saml:Issuer></saml:Assertion></samlp:Response>`), []string{"id-1"}, mustURL(acsURL))
						}
						if busy == "messages" || busy == "both" {
							_, _ = other.MakeRedirectAuthenticationRequest("unrelated")
							_, _ = other.MakePostLogoutRequest("bob", "unrelated")
							_, _ = other.MakeArtifactResolveRequest("another-artifact")
						}
						return ""
					})
				}
			}
			s.HTTPClient = &http.Client{Transport: rt}
			impl := safely(func() string {
				req, _ := http.NewRequest("POST", acsURL, nil)
				req.Form = url.Values{"SAMLart": {"AAQAAMFbLinlXaCM+FIxiDwGOLAy2T71gbpO7ZhNzAgEANlB90ECfpNEVLg="}}
				req.PostForm = req.Form
				_, _ = s.ParseResponse(req, []string{"id-1"})
				return "ok"
			})
			if impl != "ok" {
				why = "key=signed-message-on-the-wire:ArtifactResolve artifact resolution panicked: " + impl
			} else if !seen && why == "" {
				why = "key=signed-message-on-the-wire:ArtifactResolve no ArtifactResolve was sent"
			}
			c.count("c13-artifact-wire", busy)
			c.emitOneWay("artifactwire", []string{encStr(kc.key), encStr(busy)}, impl, why)
		}
	}
}

// keyRotation: "the signature the SP attaches verifies under the certificate in the SP's published metadata" — on one
// ServiceProvider value whose key pair (and, separately, whose method) is replaced between messages, each message is
// checked against the certificate Metadata() publishes at that moment.
func (c *Ctx) keyRotation() {
	now := baseTime
	saml.TimeNow = func() time.Time { return now }
	plans := []struct {
		keys    []string
		methods []string
	}{
		{[]string{"sp", "rsa1024", "sp"}, []string{dsig.RSASHA256SignatureMethod, dsig.RSASHA256SignatureMethod, dsig.RSASHA256SignatureMethod}},
		{[]string{"ec256", "ec384", "ec256"}, []string{dsig.ECDSASHA256SignatureMethod, dsig.ECDSASHA256SignatureMethod, dsig.ECDSASHA256SignatureMethod}},
		{[]string{"sp", "sp", "rsa1024"}, []string{dsig.RSASHA1SignatureMethod, dsig.RSASHA512SignatureMethod, dsig.RSASHA512SignatureMethod}},
		{[]string{"ec521", "ec521", "ec256"}, []string{dsig.ECDSASHA384SignatureMethod, dsig.ECDSASHA512SignatureMethod, dsig.ECDSASHA256SignatureMethod}},
	}
	for pi, pl := range plans {
		s := c.spFor(idpEndpoints[pi%2], idpEndpoints[0], pl.keys[0], pl.methods[0], true)
		saml.RandReader = &detReader{c: c}
		for step := range pl.keys {
			k := c.key(pl.keys[step])
			s.Key, s.Certificate, s.SignatureMethod = k.Key, k.Cert, pl.methods[step]
			// the certificate a peer would use: the signing key descriptor of the metadata published now
			var pub *x509.Certificate
			for _, kd := range s.Metadata().SPSSODescriptors[0].KeyDescriptors {
				if kd.Use == "signing" && len(kd.KeyInfo.X509Data.X509Certificates) > 0 {
					if der, err := base64.StdEncoding.DecodeString(kd.KeyInfo.X509Data.X509Certificates[0].Data); err == nil {
						pub, _ = x509.ParseCertificate(der)
					}
				}
			}
			why := ""
			impl := safely(func() string {
				if pub == nil {
					why = "key=metadata-signing-cert published metadata carries no parsable signing certificate"
					return "ok"
				}
				fail := func(kind, what string) {
					if why == "" {
						why = fmt.Sprintf("key=signed-message-after-rotation:%s step %d of plan %d (key %s, method %s): %s", kind, step+1, pi, pl.keys[step], pl.methods[step], what)
					}
				}
				// redirect binding: detached signature over the octets in the URL
				s.IDPMetadata.IDPSSODescriptors[0].SingleSignOnServices[0].Binding = saml.HTTPRedirectBinding
				u, err := s.MakeRedirectAuthenticationRequest("rs-" + fmt.Sprint(step))
				s.IDPMetadata.IDPSSODescriptors[0].SingleSignOnServices[0].Binding = saml.HTTPPostBinding
				if err != nil {
					fail("AuthnRequest/Redirect", "refused: "+err.Error())
				} else {
					raw := u.RawQuery
					i, j := strings.Index(raw, "SAMLRequest="), strings.Index(raw, "&Signature=")
					sg := rawParam(raw, "Signature")
					if i < 0 || j < i || len(sg) != 1 {
						fail("AuthnRequest/Redirect", "no Signature parameter")
					} else {
						sigB, _ := base64.StdEncoding.DecodeString(sg[0])
						if !verifyDetached(pub.PublicKey, pl.methods[step], []byte(raw[i:j]), sigB) {
							fail("AuthnRequest/Redirect", "the detached signature does not verify under the published certificate")
						}
					}
				}
				env := func(kind string, xmlb []byte, err error) {
					if err != nil {
						fail(kind, "refused: "+err.Error())
						return
					}
					doc := etree.NewDocument()
					if err := doc.ReadFromBytes(xmlb); err != nil || doc.Root() == nil {
						fail(kind, "not well-formed")
					} else if doc.Root().FindElement("./Signature") == nil {
						fail(kind, "no signature")
					} else if err := verifyEnveloped(doc.Root(), pub); err != nil {
						fail(kind, "the enveloped signature does not verify under the published certificate: "+err.Error())
					}
				}
				h, err := s.MakePostAuthenticationRequest("rs")
				var xb []byte
				if err == nil {
					xb, err = formMessage(h)
				}
				env("AuthnRequest/POST", xb, err)
				lr, err := s.MakeLogoutRequest(idpEndpoints[0], "alice")
				if err == nil {
					xb = elBytes(lr.Element())
				}
				env("LogoutRequest", xb, err)
				lp, err := s.MakeLogoutResponse(idpEndpoints[0], "id-x")
				if err == nil {
					xb = elBytes(lp.Element())
				}
				env("LogoutResponse", xb, err)
				arq, err := s.MakeArtifactResolveRequest("artifact")
				if err == nil {
					xb = elBytes(arq.Element())
				}
				env("ArtifactResolve", xb, err)
				return "ok"
			})
			c.count("c13-rotation-step", fmt.Sprint(step+1))
			c.emitOneWay("rotation", []string{fmt.Sprint(pi), fmt.Sprint(step)}, impl, why)
		}
	}
}
