package main

// C05: IdP request validation and ACS routing.

import (
	"bytes"
	"compress/flate"
	"encoding/base64"
	"fmt"
	"net/http"
	"net/http/httptest"
	"net/url"
	"os"
	"regexp"
	"strings"
	"time"

	"github.com/crewjam/saml"
	"github.com/crewjam/saml/logger"
)

func init() { gens["C05"] = (*Ctx).genC05 }

const (
	idpMetadataURL = "https://idp.example.com/saml/metadata"
	idpSSOURL      = "https://idp.example.com/saml/sso"
)

type mdEndpoint struct {
	Binding, Location string
	Index             int
	IsDefault         *bool
	Resp              *string // ResponseLocation: legal on any IndexedEndpoint, meaningless for an ACS; never a target of anything
}

type mdKey struct {
	Use   string
	Certs []string
	// EncryptionMethod children: what the SP says it can decrypt; the IdP's cipher is fixed, so they select nothing
	Methods []string
}

type mdDesc struct {
	ACS  []mdEndpoint
	Keys []mdKey
}

type mdEntity struct {
	EntityID string
	Descs    []mdDesc
}

func (e mdEntity) toks() []string {
	t := []string{encStr(e.EntityID), fmt.Sprint(len(e.Descs))}
	for _, d := range e.Descs {
		t = append(t, fmt.Sprint(len(d.ACS)))
		for _, a := range d.ACS {
			t = append(t, encStr(a.Binding), encStr(a.Location), fmt.Sprint(a.Index))
			if a.IsDefault == nil {
				t = append(t, "-")
			} else {
				t = append(t, "+", encBool(*a.IsDefault))
			}
		}
		t = append(t, fmt.Sprint(len(d.Keys)))
		for _, k := range d.Keys {
			t = append(t, encStr(k.Use))
			t = append(t, encStrList(k.Certs)...)
		}
	}
	return t
}

func (e mdEntity) real() *saml.EntityDescriptor {
	ed := &saml.EntityDescriptor{EntityID: e.EntityID}
	for _, d := range e.Descs {
		var sd saml.SPSSODescriptor
		for _, a := range d.ACS {
			sd.AssertionConsumerServices = append(sd.AssertionConsumerServices, saml.IndexedEndpoint{Binding: a.Binding, Location: a.Location, Index: a.Index, IsDefault: a.IsDefault, ResponseLocation: a.Resp})
		}
		for _, k := range d.Keys {
			kd := saml.KeyDescriptor{Use: k.Use}
			for _, m := range k.Methods {
				kd.EncryptionMethods = append(kd.EncryptionMethods, saml.EncryptionMethod{Algorithm: m})
			}
			for _, cs := range k.Certs {
				kd.KeyInfo.X509Data.X509Certificates = append(kd.KeyInfo.X509Data.X509Certificates, saml.X509Certificate{Data: cs})
			}
			sd.KeyDescriptors = append(sd.KeyDescriptors, kd)
		}
		ed.SPSSODescriptors = append(ed.SPSSODescriptors, sd)
	}
	return ed
}

type regEntry struct {
	kind string // f | n | e
	md   mdEntity
}

type registry map[string]regEntry

func (r registry) GetServiceProvider(_ *http.Request, id string) (*saml.EntityDescriptor, error) {
	e, ok := r[id]
	if !ok || e.kind == "n" {
		return nil, os.ErrNotExist
	}
	if e.kind == "e" {
		return nil, fmt.Errorf("backing store unavailable")
	}
	return e.md.real(), nil
}

type fixedSession struct{ s *saml.Session }

func (f fixedSession) GetSession(http.ResponseWriter, *http.Request, *saml.IdpAuthnRequest) *saml.Session {
	return f.s
}

type areq struct {
	ID          string
	Issuer      *string
	Destination string
	Version     *string
	II          *int64 // nil: attribute absent
	ACSURL      string
	ACSIndex    string
	// optional children and attributes a request may legally carry; none of them takes part in the guards
	CondNOA *int64 // <saml:Conditions NotOnOrAfter=…>
	CondNB  *int64
	Extras  bool // ForceAuthn / IsPassive / ProviderName attributes, NameIDPolicy, RequestedAuthnContext, Subject
}

func xmlAttrEsc(s string) string {
	r := strings.NewReplacer("&", "&amp;", "<", "&lt;", ">", "&gt;", "\"", "&quot;", "\n", "&#xA;", "\r", "&#xD;", "\t", "&#x9;")
	return r.Replace(s)
}

func (a areq) xml(lex int) []byte {
	var sb strings.Builder
	sb.WriteString(`<samlp:AuthnRequest xmlns:saml="urn:oasis:names:tc:SAML:2.0:assertion" xmlns:samlp="urn:oasis:names:tc:SAML:2.0:protocol"`)
	fmt.Fprintf(&sb, ` ID="%s"`, xmlAttrEsc(a.ID))
	if a.Version != nil {
		fmt.Fprintf(&sb, ` Version="%s"`, xmlAttrEsc(*a.Version))
	}
	if a.II != nil {
		fmt.Fprintf(&sb, ` IssueInstant="%s"`, lexTime(*a.II, lex))
	}
	if a.Destination != "" {
		fmt.Fprintf(&sb, ` Destination="%s"`, xmlAttrEsc(a.Destination))
	}
	if a.ACSIndex != "" {
		fmt.Fprintf(&sb, ` AssertionConsumerServiceIndex="%s"`, xmlAttrEsc(a.ACSIndex))
	}
	if a.ACSURL != "" {
		fmt.Fprintf(&sb, ` AssertionConsumerServiceURL="%s"`, xmlAttrEsc(a.ACSURL))
	}
	if a.Extras {
		sb.WriteString(` ForceAuthn="true" IsPassive="false" ProviderName="Some SP" ProtocolBinding="urn:oasis:names:tc:SAML:2.0:bindings:HTTP-POST"`)
	}
	sb.WriteString(`>`)
	if a.Issuer != nil {
		fmt.Fprintf(&sb, `<saml:Issuer Format="urn:oasis:names:tc:SAML:2.0:nameid-format:entity">%s</saml:Issuer>`, xmlAttrEsc(*a.Issuer))
	}
	if a.Extras {
		sb.WriteString(`<saml:Subject><saml:NameID>someone@example.com</saml:NameID></saml:Subject><samlp:NameIDPolicy Format="urn:oasis:names:tc:SAML:2.0:nameid-format:transient" AllowCreate="true"/>`)
	}
	if a.CondNOA != nil || a.CondNB != nil {
		sb.WriteString(`<saml:Conditions`)
		if a.CondNB != nil {
			fmt.Fprintf(&sb, ` NotBefore="%s"`, lexTime(*a.CondNB, lex))
		}
		if a.CondNOA != nil {
			fmt.Fprintf(&sb, ` NotOnOrAfter="%s"`, lexTime(*a.CondNOA, lex))
		}
		sb.WriteString(`/>`)
	}
	if a.Extras {
		sb.WriteString(`<samlp:RequestedAuthnContext Comparison="exact"><saml:AuthnContextClassRef>urn:oasis:names:tc:SAML:2.0:ac:classes:PasswordProtectedTransport</saml:AuthnContextClassRef></samlp:RequestedAuthnContext>`)
	}
	sb.WriteString(`</samlp:AuthnRequest>`)
	return []byte(sb.String())
}

func (c *Ctx) newIDP(reg registry) *saml.IdentityProvider {
	k := c.key("idp")
	return &saml.IdentityProvider{Key: k.Key, Certificate: k.Cert, Logger: logger.DefaultLogger, MetadataURL: mustURL(idpMetadataURL), SSOURL: mustURL(idpSSOURL),
		ServiceProviderProvider: reg, SessionProvider: fixedSession{&saml.Session{ID: "sess1", NameID: "alice", UserName: "alice", CreateTime: time.Unix(1700000000, 0), ExpireTime: time.Unix(1900000000, 0), Index: "idx1"}}}
}

// deliverAs makes the HTTP request that carries the message look as if it had been received at the location the
// message names as Destination: the validity of a request must not depend on what the request says about its own delivery.
func deliverAs(r *http.Request, how string, dest string) {
	u, err := url.Parse(strings.TrimSpace(dest))
	if err != nil || u.Host == "" {
		return
	}
	switch how {
	case "host":
		r.Host = u.Host
	case "url":
		r.Host = u.Host
		r.URL.Host = u.Host
		r.URL.Scheme = u.Scheme
		r.URL.Path = u.Path
	case "forwarded":
		r.Header.Set("X-Forwarded-Host", u.Host)
		r.Header.Set("Forwarded", "host="+u.Host)
		r.Header.Set("X-Forwarded-Proto", u.Scheme)
	}
}

func (c *Ctx) idpValidate(reg registry, regOrder []string, a areq, now int64, delay int64, post bool) {
	c.idpValidateVia(reg, regOrder, a, now, delay, post, "")
}

func (c *Ctx) idpValidateVia(reg registry, regOrder []string, a areq, now int64, delay int64, post bool, delivery string) {
	saml.MaxIssueDelay = time.Duration(delay) * time.Millisecond
	t := time.UnixMilli(now).UTC()
	saml.TimeNow = func() time.Time { return t }
	idp := c.newIDP(reg)
	buf := a.xml(c.rng.Intn(6))
	var r *http.Request
	if post {
		form := url.Values{"SAMLRequest": {base64.StdEncoding.EncodeToString(buf)}, "RelayState": {"rs"}}
		r, _ = http.NewRequest("POST", idpSSOURL, strings.NewReader(form.Encode()))
		r.Header.Set("Content-Type", "application/x-www-form-urlencoded")
	} else {
		var zb bytes.Buffer
		w, _ := flate.NewWriter(&zb, 9)
		w.Write(buf)
		w.Close()
		q := url.Values{"SAMLRequest": {base64.StdEncoding.EncodeToString(zb.Bytes())}, "RelayState": {"rs"}}
		r, _ = http.NewRequest("GET", idpSSOURL+"?"+q.Encode(), nil)
	}
	if delivery != "" {
		deliverAs(r, delivery, a.Destination)
		c.count("c05-delivery", delivery)
	}
	impl := safely(func() string {
		req, err := saml.NewIdpAuthnRequest(idp, r)
		if err != nil {
			return "err-decode"
		}
		if err := req.Validate(); err != nil {
			return "err"
		}
		if req.ACSEndpoint == nil || req.ServiceProviderMetadata == nil {
			return "ok-nil-endpoint"
		}
		return "ok " + encStr(req.ACSEndpoint.Binding) + " " + encStr(req.ACSEndpoint.Location) + " " + fmt.Sprint(req.ACSEndpoint.Index) + " " + encStr(req.ServiceProviderMetadata.EntityID)
	})
	// direct oracle: guards and registered endpoint
	orc := ""
	if strings.HasPrefix(impl, "panic") {
		orc = "key=idp-validate-panic Validate panicked: " + impl
	} else if strings.HasPrefix(impl, "ok ") {
		f := strings.Fields(impl)
		loc, _ := url.PathUnescape(f[2][1:])
		bnd, _ := url.PathUnescape(f[1][1:])
		var why []string
		if a.II == nil || now > *a.II+delay {
			why = append(why, "stale request accepted")
		}
		if a.Version == nil || *a.Version != "2.0" {
			why = append(why, "version not 2.0 accepted")
		}
		if a.Destination != "" && a.Destination != idpSSOURL {
			why = append(why, "foreign Destination accepted")
		}
		found := false
		if a.Issuer != nil {
			if e, ok := reg[*a.Issuer]; ok && e.kind == "f" {
				for _, d := range e.md.Descs {
					for _, ep := range d.ACS {
						if ep.Location == loc && ep.Binding == bnd && fmt.Sprint(ep.Index) == f[3] {
							found = true
						}
					}
				}
			}
		}
		if !found {
			why = append(why, "selected endpoint "+loc+" is not registered for the issuer")
		}
		// which one: the requested index, else the requested URL, else the default, else the first browser-binding endpoint
		if a.Issuer != nil {
			if e, ok := reg[*a.Issuer]; ok && e.kind == "f" {
				if want := specSelectACS(e.md, a); want != nil && (want.Location != loc || want.Binding != bnd || fmt.Sprint(want.Index) != f[3]) {
					why = append(why, fmt.Sprintf("selected %s %s #%s, but the rule (index, else URL, else default, else first browser binding) selects %s %s #%d", bnd, loc, f[3], want.Binding, want.Location, want.Index))
				}
			}
		}
		if len(why) > 0 {
			orc = "key=c05-guard " + strings.Join(why, "; ")
		}
	}
	iiTok := encInt(zeroTimeMs)
	if a.II != nil {
		iiTok = encInt(*a.II)
	}
	ver := ""
	if a.Version != nil {
		ver = *a.Version
	}
	toks := []string{encStr(idpSSOURL), encInt(delay), encInt(now), fmt.Sprint(len(regOrder))}
	for _, id := range regOrder {
		e := reg[id]
		toks = append(toks, encStr(id), e.kind)
		if e.kind == "f" {
			toks = append(toks, e.md.toks()...)
		}
	}
	toks = append(toks, encStr(a.ID))
	toks = append(toks, encOptStr(a.Issuer)...)
	toks = append(toks, encStr(a.Destination), encStr(ver), iiTok, encStr(a.ACSURL), encStr(a.ACSIndex))
	c.count("c05-binding", map[bool]string{true: "POST", false: "GET-deflate"}[post])
	c.emit("idpvalidate", toks, impl, orc)
}

// specSelectACS is the selection rule of the property, written from its text
func specSelectACS(md mdEntity, a areq) *mdEndpoint {
	var all []mdEndpoint
	for _, d := range md.Descs {
		all = append(all, d.ACS...)
	}
	if a.ACSIndex != "" {
		for i := range all {
			if fmt.Sprint(all[i].Index) == a.ACSIndex {
				return &all[i]
			}
		}
	}
	if a.ACSURL != "" {
		for i := range all {
			if all[i].Location == a.ACSURL {
				return &all[i]
			}
		}
	}
	if a.ACSIndex != "" || a.ACSURL != "" {
		return nil
	}
	browser := func(b string) bool { return b == saml.HTTPPostBinding || b == saml.HTTPRedirectBinding }
	for i := range all {
		if all[i].IsDefault != nil && *all[i].IsDefault && browser(all[i].Binding) {
			return &all[i]
		}
	}
	for i := range all {
		if browser(all[i].Binding) {
			return &all[i]
		}
	}
	return nil
}

var formActionRe = regexp.MustCompile(`<form method="post" action="([^"]*)"`)

func (c *Ctx) idpInitiated(md mdEntity) {
	reg := registry{md.EntityID: {kind: "f", md: md}}
	saml.MaxIssueDelay = 90 * time.Second
	t := baseTime
	saml.TimeNow = func() time.Time { return t }
	idp := c.newIDP(reg)
	impl := safely(func() string {
		w := httptest.NewRecorder()
		r, _ := http.NewRequest("GET", "https://idp.example.com/login/sp", nil)
		idp.ServeIDPInitiated(w, r, md.EntityID, "relay")
		if w.Code != 200 {
			return "err"
		}
		m := formActionRe.FindStringSubmatch(w.Body.String())
		if m == nil {
			return "err-noform"
		}
		return "ok " + encStr(strings.ReplaceAll(m[1], "&amp;", "&"))
	})
	// model prints binding location index; compare location only (impl side has only the action)
	orc := ""
	if strings.HasPrefix(impl, "ok ") {
		loc, _ := url.PathUnescape(strings.Fields(impl)[1][1:])
		found := false
		for _, d := range md.Descs {
			for _, ep := range d.ACS {
				if ep.Location == loc && ep.Binding == saml.HTTPPostBinding {
					found = true
				}
			}
		}
		if !found {
			orc = "key=c05-idp-initiated form action " + loc + " is not a registered HTTP-POST ACS"
		}
	} else {
		// "IdP-initiated flow selects a POST-binding ACS from the registry": when one is registered the launch goes there
		for _, d := range md.Descs {
			for _, ep := range d.ACS {
				if ep.Binding == saml.HTTPPostBinding && orc == "" {
					orc = "key=c05-idp-initiated-refused an HTTP-POST ACS (" + ep.Location + ") is registered but the IdP-initiated launch failed: " + impl
				}
			}
		}
	}
	c.emit("idpinit", md.toks(), impl, orc)
}

var bindingsPool = []string{saml.HTTPPostBinding, saml.HTTPRedirectBinding, saml.HTTPArtifactBinding, "urn:unknown:binding"}

func (c *Ctx) randMD(id string) mdEntity {
	e := mdEntity{EntityID: id}
	nd := c.rng.Intn(4)
	for i := 0; i < nd; i++ {
		var d mdDesc
		na := c.rng.Intn(5)
		for j := 0; j < na; j++ {
			ep := mdEndpoint{Binding: bindingsPool[c.rng.Intn(4)], Location: fmt.Sprintf("https://sp.example.com/acs%d", c.rng.Intn(4)), Index: c.rng.Intn(4) - 1}
			if c.chance(0.4) {
				b := c.chance(0.5)
				ep.IsDefault = &b
			}
			if c.chance(0.3) {
				r := fmt.Sprintf("https://sp.example.com/other-response-location%d", c.rng.Intn(3))
				ep.Resp = &r
			}
			d.ACS = append(d.ACS, ep)
		}
		e.Descs = append(e.Descs, d)
	}
	return e
}

func (c *Ctx) genC05() {
	now := ms(baseTime)
	delay := int64(90000)
	n := 2500
	if !c.quick() {
		n = 60000
	}
	issuers := []string{"https://sp.example.com/metadata", "https://other.example.com/metadata", "https://broken.example.com/metadata"}
	// Destination, alone: every near miss of the SSO URL on an otherwise valid request, both bindings
	{
		goodReg := registry{issuers[0]: regEntry{kind: "f", md: mdEntity{EntityID: issuers[0], Descs: []mdDesc{{ACS: []mdEndpoint{{Binding: saml.HTTPPostBinding, Location: "https://sp.example.com/acs0", Index: 1}}}}}}}
		for _, d := range []string{idpSSOURL, "", "https://idp.example.com:8443/saml/sso", "https://idp.example.com:443/saml/sso", idpSSOURL + "?tenant=evil", idpSSOURL + "?", idpSSOURL + "#frag",
			"https://user@idp.example.com/saml/sso", "https://user:pw@idp.example.com/saml/sso", "https://idp.example.com/saml/%73so", "https://idp.example.com/saml/sso%20", "https://IDP.example.com/saml/sso",
			"HTTPS://idp.example.com/saml/sso", "http://idp.example.com/saml/sso", idpSSOURL + "/", "https://idp.example.com//saml/sso", "https://idp.example.com/saml/../saml/sso", " " + idpSSOURL, idpSSOURL + " ",
			"https://idp.example.com./saml/sso", "//idp.example.com/saml/sso", "/saml/sso", "https://evil.example.org/saml/sso", "https://idp.example.com.evil.example.org/saml/sso"} {
			for _, post := range []bool{false, true} {
				ii := now - 1000
				a := areq{ID: "id-dest", Issuer: sp(issuers[0]), Version: sp("2.0"), II: &ii, Destination: d}
				c.count("c05-destination", "near-miss-alone")
				c.idpValidate(goodReg, []string{issuers[0]}, a, now, delay, post)
				// the same message on a connection that claims the Destination's authority (Host header, request URL, proxy headers)
				for _, how := range []string{"host", "url", "forwarded"} {
					c.idpValidateVia(goodReg, []string{issuers[0]}, a, now, delay, post, how)
				}
			}
		}
	}
	// optional parts of a request (Conditions with its own deadlines, ForceAuthn, NameIDPolicy, RequestedAuthnContext, Subject)
	// change nothing about the guards: freshness is IssueInstant + MaxIssueDelay whatever the requester's own deadline says
	{
		goodReg := registry{issuers[0]: regEntry{kind: "f", md: mdEntity{EntityID: issuers[0], Descs: []mdDesc{{ACS: []mdEndpoint{{Binding: saml.HTTPPostBinding, Location: "https://sp.example.com/acs0", Index: 1}}}}}}}
		year := int64(365 * 24 * 3600 * 1000)
		for _, iiOff := range []int64{-1000, -(delay - 1), -(delay + 1), -3600000, -year} {
			for _, cond := range []string{"none", "future", "past", "nb-future"} {
				for _, extras := range []bool{false, true} {
					for _, post := range []bool{false, true} {
						ii := now + iiOff
						a := areq{ID: "id-opt", Issuer: sp(issuers[0]), Version: sp("2.0"), II: &ii, Extras: extras}
						switch cond {
						case "future":
							v := now + year
							a.CondNOA = &v
						case "past":
							v := now - year
							a.CondNOA = &v
						case "nb-future":
							v := now + year
							a.CondNB = &v
						}
						c.count("c05-optional-parts", cond+"/"+fmt.Sprint(extras))
						c.idpValidate(goodReg, []string{issuers[0]}, a, now, delay, post)
					}
				}
			}
		}
	}
	for i := 0; i < n; i++ {
		reg := registry{}
		order := []string{}
		reg[issuers[0]] = regEntry{kind: "f", md: c.randMD(issuers[0])}
		order = append(order, issuers[0])
		if c.chance(0.5) {
			reg[issuers[1]] = regEntry{kind: "f", md: c.randMD(issuers[1])}
			order = append(order, issuers[1])
		}
		reg[issuers[2]] = regEntry{kind: c.pick("e", "n")}
		order = append(order, issuers[2])
		a := areq{ID: fmt.Sprintf("id-%d", i), Issuer: sp(issuers[0]), Version: sp("2.0")}
		ii := place(now-delay, 1, []int{0, 1, 3, 3, 3, 2, 4}[c.rng.Intn(7)])
		a.II = &ii
		switch c.rng.Intn(10) {
		case 0:
			a.Issuer = nil
		case 1:
			a.Issuer = sp(issuers[1])
		case 2:
			a.Issuer = sp(issuers[2])
		case 3:
			a.Issuer = sp("https://unknown.example.com/")
		case 4:
			a.Issuer = sp("")
		}
		switch c.rng.Intn(8) {
		case 0:
			a.Version = sp("1.1")
		case 1:
			a.Version = nil
		case 2:
			a.Version = sp("2.00")
		}
		switch c.rng.Intn(6) {
		case 0:
			a.Destination = idpSSOURL
		case 1:
			a.Destination = "https://evil.example.org/sso"
		case 2:
			a.Destination = idpSSOURL + "/"
		case 3:
			a.Destination = c.pick("https://idp.example.com:8443/saml/sso", idpSSOURL+"?x=1", idpSSOURL+"#f", "https://u@idp.example.com/saml/sso", "https://idp.example.com/saml/%73so", "http://idp.example.com/saml/sso")
		}
		if c.chance(0.05) {
			a.II = nil
		}
		switch c.rng.Intn(5) {
		case 0:
			a.ACSURL = fmt.Sprintf("https://sp.example.com/acs%d", c.rng.Intn(5))
		case 1:
			a.ACSURL = "https://evil.example.org/acs"
		case 2:
			// near-miss of a registered location: extension, proper prefix, case, query, path tricks
			b := fmt.Sprintf("https://sp.example.com/acs%d", c.rng.Intn(4))
			a.ACSURL = []string{b + "x", b + "/", b + "?tenant=1", b[:len(b)-1], strings.ToUpper(b), b + "/../../redirect", b + ".evil.example.org/collect", " " + b}[c.rng.Intn(8)]
			c.count("c05-acsurl", "near-miss")
		}
		switch c.rng.Intn(5) {
		case 0:
			a.ACSIndex = fmt.Sprint(c.rng.Intn(5) - 1)
		case 1:
			a.ACSIndex = c.pick("01", "+1", "x", " 1", "1 ", "9999999999999999999999")
		}
		c.idpValidateVia(reg, order, a, now, delay, c.chance(0.5), c.pick("", "", "host", "url", "forwarded"))
	}
	// the registry of the bundled server: "listed in that registered provider's metadata" means the metadata registered *now*
	{
		ents := []string{"https://spa.example.com/md", "https://spb.example.com/md", "https://spc.example.com/md"}
		w := c.newIdpWorld()
		pw := "pw-a"
		w.putUser("alice", "alice@example.com", "Alice A", []string{"staff"}, &pw, nil)
		w.putService("svc1", ents[0], true, false, nil)
		w.registryMoveHistory(ents)
		c.count("c05-registry", "re-registration-with-moved-endpoint")
		w.flush()
	}
	m := 300
	if !c.quick() {
		m = 5000
	}
	for i := 0; i < m; i++ {
		c.idpInitiated(c.randMD("https://sp.example.com/metadata"))
	}
}
