package main

// C15: durations, instants, metadata round trips.

import (
	"bytes"
	"encoding/base64"
	"encoding/xml"
	"fmt"
	"math"
	"reflect"
	"regexp"
	"strconv"
	"strings"
	"time"

	"github.com/crewjam/saml"
)

func init() { gens["C15"] = (*Ctx).genC15 }

func (c *Ctx) durRT(d int64) {
	var text string
	impl := safely(func() string {
		b, err := saml.Duration(d).MarshalText()
		if err != nil {
			return "err"
		}
		text = string(b)
		var back saml.Duration
		if d != 0 || b != nil { // zero marshals to nil, which unmarshals to zero
			var in []byte = b
			if err := back.UnmarshalText(in); err != nil {
				return encStr(text) + " err"
			}
		}
		return encStr(text) + " ok " + fmt.Sprint(int64(back))
	})
	orc := ""
	want := encStr(text) + " ok " + fmt.Sprint(d)
	if impl != want {
		orc = "key=" + durKey(d) + " UnmarshalText(MarshalText(d)) != d for d=" + fmt.Sprint(d) + ": " + impl
	}
	c.emit("durrt", []string{encInt(d)}, impl, orc)
}

func durKey(d int64) string {
	if d == math.MinInt64 {
		return "duration-minint64"
	}
	if d%1000000000 != 0 {
		return "duration-subsecond"
	}
	return "duration-other"
}

func (c *Ctx) durParse(s string) { c.durParseWant(s, "") }

// durParseWant: `want` (when non-empty) is the value the generator itself assembled the string from — decimal
// fields, 24 h days, fraction truncated to the nanosecond — so a reader that misreads a field is a failing input
// by the property's own words ("all grammar-generated duration strings"), not only a model disagreement
func (c *Ctx) durParseWant(s string, want string) {
	impl := safely(func() string {
		var d saml.Duration
		if err := d.UnmarshalText([]byte(s)); err != nil {
			return "err"
		}
		return "ok " + fmt.Sprint(int64(d))
	})
	orc := ""
	if want != "" && impl != want {
		orc = "key=duration-grammar-value Duration.UnmarshalText(" + strconv.Quote(s) + ") = " + impl + ", the string was generated from " + want
	}
	c.emit("durparse", []string{encStr(s)}, impl, orc)
}

func (c *Ctx) genC15() {
	defer c.genC15Metadata()
	defer c.genC15Instants()
	const (
		ns  = int64(1)
		sec = int64(1000000000)
		min = 60 * sec
		hr  = 60 * min
	)
	// boundary classes, exhaustively
	var ds []int64
	ds = append(ds, 0, math.MaxInt64, math.MinInt64, math.MinInt64+1, math.MaxInt64-1)
	for _, base := range []int64{0, sec, 59 * sec, min, 59 * min, hr, 24 * hr, 25*hr + min + sec, 2562047 * hr} {
		for _, delta := range []int64{-1, 0, 1, 999999999, -999999999} {
			ds = append(ds, base+delta, -(base + delta))
		}
	}
	// each sub-second digit count
	for k := 0; k < 9; k++ {
		p := int64(math.Pow10(k))
		for _, m := range []int64{1, 9, 5, 7} {
			ds = append(ds, m*p, sec+m*p, -(m * p), 59*sec+999999999-m*p+1)
		}
	}
	// every seconds and minutes count (trailing-zero digits in any field), with and without a fraction
	for m := int64(0); m < 60; m++ {
		for sx := int64(0); sx < 60; sx++ {
			ds = append(ds, m*min+sx*sec, 3*hr+m*min+sx*sec+500000000, -(m*min + sx*sec + 10))
		}
	}
	for h := int64(0); h <= 120; h++ {
		ds = append(ds, h*hr, h*hr+10*sec)
	}
	for _, d := range ds {
		c.count("dur-class", "boundary")
		c.durRT(d)
	}
	n := 4000
	if !c.quick() {
		n = 200000
	}
	for i := 0; i < n; i++ {
		var d int64
		switch c.rng.Intn(5) {
		case 0:
			d = c.rng.Int63n(sec) // pure sub-second
		case 1:
			d = c.rng.Int63n(100 * sec)
		case 2:
			d = c.rng.Int63n(100 * hr)
		case 3:
			d = int64(c.rng.Uint64())
		default:
			d = int64(c.rng.Intn(1000)) * int64(math.Pow10(c.rng.Intn(9))) // few significant digits
		}
		if c.chance(0.3) {
			d = -d
		}
		c.count("dur-class", "random")
		c.durRT(d)
	}
	// grammar-generated and mutated strings
	fixed := []string{"", "P", "PT", "-P", "-PT", "P1Y", "P1M", "P1D", "PT1H", "PT1M", "PT1S", "PT1.5S", "PT0.000000001S", "PT0.0000000019S", "P1Y2M3DT4H5M6.789S",
		"P1YT", "PT1H1H", "PT1M1H", "P1M1Y", "P1D1M", "PT1", "P1", "PT1.S", "PT.5S", "PT1.5", "P-1D", "+P1D", "P1DT", "P1DT\n", "PT1S\n", " PT1S", "PT1S ",
		"pt1s", "P1W", "P1.5D", "PT1.5H", "PT1.5M", "PT1,5S", "P9223372036854775807Y", "P9223372036854775808D", "PT9223372036854775807S", "PT9223372036854775808S",
		"PT99999999999999999999S", "P99999999999999999999Y", "PT2562047H47M16.854775807S", "PT2562047H47M16.854775808S", "-PT2562047H47M16.854775808S",
		"PT2562048H", "P106751D", "P106752D", "PT1.0000000001S", "PT0.9999999999S", "PT00001S", "PT1.50S", "P٣D", "PT１S", "P1D2", "PTS", "PT5M10", "P1YT1H\x00"}
	for _, s := range fixed {
		c.count("durparse-class", "fixed")
		c.durParse(s)
	}
	n = 3000
	if !c.quick() {
		n = 100000
	}
	for i := 0; i < n; i++ {
		var sb strings.Builder
		if c.chance(0.2) {
			sb.WriteString("-")
		}
		neg := sb.Len() > 0
		sb.WriteString("P")
		// the value the string is assembled from (known = every field small and decimal, no calendar units)
		known, fields, total := true, 0, int64(0)
		last := int64(0)
		num := func() string {
			switch c.rng.Intn(7) {
			case 0:
				last = int64(c.rng.Intn(10))
				return fmt.Sprint(last)
			case 1:
				last = int64(c.rng.Intn(100000))
				return fmt.Sprint(last)
			case 2:
				known = false
				return fmt.Sprint(c.rng.Uint64())
			case 3:
				last = int64(c.rng.Intn(100))
				return "0" + fmt.Sprint(last)
			case 4:
				last = int64(c.rng.Intn(1000))
				return strings.Repeat("0", 1+c.rng.Intn(3)) + fmt.Sprint(last)
			default:
				last = int64(c.rng.Intn(61))
				return fmt.Sprint(last)
			}
		}
		for _, u := range []string{"Y", "M", "D"} {
			if c.chance(0.3) {
				sb.WriteString(num() + u)
				fields++
				if u == "D" {
					total += last * 24 * hr
				} else {
					known = false // the length of a year / month is the library's choice
				}
			}
		}
		if c.chance(0.7) {
			sb.WriteString("T")
			for _, u := range []string{"H", "M"} {
				if c.chance(0.4) {
					sb.WriteString(num() + u)
					fields++
					if u == "H" {
						total += last * hr
					} else {
						total += last * min
					}
				}
			}
			if c.chance(0.6) {
				sb.WriteString(num())
				fields++
				total += last * sec
				if c.chance(0.6) {
					frac := strings.Repeat("0", c.rng.Intn(3)) + fmt.Sprint(c.rng.Intn(1000000)) + strings.Repeat("0", c.rng.Intn(4))
					sb.WriteString("." + frac)
					f9 := (frac + "000000000")[:9]
					v, _ := strconv.ParseInt(f9, 10, 64)
					total += v
				}
				sb.WriteString("S")
			} else if strings.HasSuffix(sb.String(), "T") {
				known = false // "…T" with nothing after it: whether that is a form is not what this oracle is about
			}
		}
		s := sb.String()
		want := ""
		if known && fields > 0 {
			if neg {
				total = -total
			}
			want = "ok " + fmt.Sprint(total)
		}
		kind := "grammar"
		if c.chance(0.25) && len(s) > 1 { // mutate one position
			kind = "mutated"
			b := []byte(s)
			pos := c.rng.Intn(len(b))
			switch c.rng.Intn(4) {
			case 0:
				b = append(b[:pos], b[pos+1:]...)
			case 1:
				b[pos] = "PTYMDHS.-0 9x"[c.rng.Intn(13)]
			case 2:
				b = append(b[:pos], append([]byte{"PTYMDHS.-09"[c.rng.Intn(11)]}, b[pos:]...)...)
			default:
				b[pos], b[len(b)-1-pos] = b[len(b)-1-pos], b[pos]
			}
			s = string(b)
		}
		if kind != "grammar" {
			want = ""
		} else if want != "" {
			c.count("durparse-class", "grammar-with-known-value")
		}
		c.count("durparse-class", kind)
		c.durParseWant(s, want)
	}
}

// ---- instants (RelaxedTime) ----

func (c *Ctx) tMarshal(t time.Time) {
	impl := safely(func() string {
		b, err := saml.RelaxedTime(t).MarshalText()
		if err != nil {
			return "err"
		}
		return "ok " + encStr(string(b))
	})
	// direct oracle: what was written reads back as the instant rounded to the millisecond, in UTC
	orc := ""
	if strings.HasPrefix(impl, "ok ") {
		b, _ := saml.RelaxedTime(t).MarshalText()
		var back saml.RelaxedTime
		if err := back.UnmarshalText(b); err != nil {
			key := "c15-instant-unparseable"
			if t.Round(time.Millisecond).UTC().Year() > 9999 {
				key = "c15-year-10000-rounding"
			}
			orc = fmt.Sprintf("key=%s %s is written as %q, which UnmarshalText rejects", key, t.Format(time.RFC3339Nano), b)
		} else if !time.Time(back).Equal(t.Round(time.Millisecond)) {
			orc = fmt.Sprintf("key=c15-instant-altered %s came back as %s", t.Format(time.RFC3339Nano), time.Time(back).Format(time.RFC3339Nano))
		} else if !strings.HasSuffix(string(b), "Z") {
			orc = "key=c15-instant-not-utc " + string(b)
		}
	}
	c.emit("tmarshal", []string{encInt(t.Unix()), encInt(int64(t.Nanosecond()))}, impl, orc)
}

func (c *Ctx) tParse(s string) {
	rotateHostZone()
	impl := safely(func() string {
		var rt saml.RelaxedTime
		if err := rt.UnmarshalText([]byte(s)); err != nil {
			return "err"
		}
		return "ok " + encInt(time.Time(rt).UnixMilli())
	})
	// "rejects others with an error": whatever is accepted has the shape date 'T' time [fraction] [Z | ±hh:mm] (read generously:
	// one- or two-digit hour, '.' or ',' before the fraction — what Go's own RFC 3339 reader lets through); anything else accepted
	// is a lexical form outside the documented ones
	orc := ""
	// (the empty text is how the zero instant is written — MarshalText of the zero value — and reads back as it)
	if strings.HasPrefix(impl, "ok") && s != "" && !documentedInstantShape.MatchString(s) {
		orc = fmt.Sprintf("key=c15-undocumented-form-accepted %q is not RFC 3339 (with or without zone or fraction) and was accepted", s)
	}
	c.emit("tparse", []string{encStr(s)}, impl, orc)
}

var documentedInstantShape = regexp.MustCompile(`^[0-9]{4}-[0-9]{2}-[0-9]{2}T[0-9]{1,2}:[0-9]{2}:[0-9]{2}([.,][0-9]+)?(Z|[+-][0-9]{2}:[0-9]{2})?$`)

func (c *Ctx) genC15Instants() {
	var ts []time.Time
	date := func(y int, m time.Month, d, h, mi, s, ns int) time.Time {
		return time.Date(y, m, d, h, mi, s, ns, time.UTC)
	}
	// boundary classes: era and century borders, leap days, month ends, the epoch, the ends of the supported range
	for _, y := range []int{1, 2, 4, 99, 100, 101, 399, 400, 401, 1599, 1600, 1601, 1899, 1900, 1901, 1969, 1970, 1971, 1999, 2000, 2001, 2023, 2024, 2025, 2099, 2100, 2101, 2399, 2400, 9998, 9999} {
		for _, md := range [][2]int{{1, 1}, {1, 31}, {2, 28}, {2, 29}, {3, 1}, {4, 30}, {6, 30}, {7, 31}, {12, 31}} {
			for _, hms := range [][3]int{{0, 0, 0}, {23, 59, 59}, {12, 30, 45}} {
				for _, ns := range []int{0, 1, 499999, 500000, 500001, 999999, 1000000, 50000000, 500000000, 999499999, 999500000, 999999999} {
					t := date(y, time.Month(md[0]), md[1], hms[0], hms[1], hms[2], ns)
					if t.Year() < 1 || t.Year() > 9999 {
						continue
					}
					ts = append(ts, t)
				}
			}
		}
	}
	n := 3000
	if !c.quick() {
		n = 150000
	}
	lo, hi := date(1, 1, 1, 0, 0, 0, 0).Unix(), date(9999, 12, 31, 23, 59, 59, 0).Unix()
	for i := 0; i < n; i++ {
		sec := lo + c.rng.Int63n(hi-lo)
		ns := int64(c.rng.Intn(1000000000))
		switch c.rng.Intn(4) {
		case 0:
			ns = int64(c.rng.Intn(1000)) * 1000000 // whole milliseconds
		case 1:
			ns = int64(c.rng.Intn(1000))*1000000 + 500000 + int64(c.rng.Intn(3)) - 1 // around the rounding boundary
		}
		t := time.Unix(sec, ns).UTC()
		if c.chance(0.3) {
			t = t.In(time.FixedZone("", (c.rng.Intn(2*14*60)-14*60)*60))
		}
		ts = append(ts, t)
	}
	for _, t := range ts {
		c.count("instant-class", fmt.Sprintf("y%04d-ish", t.Year()/1000*1000))
		c.tMarshal(t)
	}
	// reading: lexical forms of good instants, and strings that must be rejected
	good := []string{"2006-01-02T15:04:05Z", "2006-01-02T15:04:05.5Z", "2006-01-02T15:04:05.123456789Z", "2006-01-02T15:04:05,25Z", "2006-01-02T15:04:05+07:00", "2006-01-02T15:04:05.999-11:30",
		"2006-01-02T15:04:05", "2006-01-02T15:04:05.000", "2006-01-02T15:04:05.1234567891Z", "0001-01-01T00:00:00Z", "9999-12-31T23:59:59.999Z", "2000-02-29T00:00:00Z", "2006-01-02T15:04:05+24:00", "2006-01-02T15:04:05-00:60", ""}
	bad := []string{"2006-01-02 15:04:05Z", "2006-01-02t15:04:05Z", "2006-01-02T15:04:05z", "2006-1-02T15:04:05Z", "06-01-02T15:04:05Z", "2006-01-02T15:04Z", "2006-01-02T24:00:00Z", "2006-01-02T15:60:00Z", "2006-01-02T15:04:60Z",
		"2006-13-02T15:04:05Z", "2006-00-02T15:04:05Z", "2006-02-30T15:04:05Z", "1900-02-29T00:00:00Z", "2006-04-31T00:00:00Z", "2006-01-00T00:00:00Z", "2006-01-02T15:04:05.Z", "2006-01-02T15:04:05+0700", "2006-01-02T15:04:05+07",
		"2006-01-02T15:04:05+25:00", "2006-01-02T15:04:05+07:61", "2006-01-02T15:04:05ZZ", "2006-01-02T15:04:05Z ", " 2006-01-02T15:04:05Z", "2006-01-02", "15:04:05Z", "yesterday", "2006-01-02T15:04:05 Z", "+2006-01-02T15:04:05Z",
		"12006-01-02T15:04:05Z", "2006-01-02T15:04:05.5", "2006-01-02T15:04:05.5+01:00x", "２００６-01-02T15:04:05Z"}
	for _, s := range append(good, bad...) {
		c.count("instant-text", "listed")
		c.tParse(s)
	}
	m := 3000
	if !c.quick() {
		m = 100000
	}
	alphabet := "0123456789-:TZ.+, "
	for i := 0; i < m; i++ {
		t := time.Unix(lo+c.rng.Int63n(hi-lo), int64(c.rng.Intn(1000000000))).UTC()
		s := lexTime(t.UnixMilli(), c.rng.Intn(6))
		if c.chance(0.3) {
			s = t.Format(time.RFC3339Nano)
		}
		kind := "valid-form"
		if c.chance(0.5) { // single-position mutation
			b := []byte(s)
			p := c.rng.Intn(len(b))
			switch c.rng.Intn(3) {
			case 0:
				b[p] = alphabet[c.rng.Intn(len(alphabet))]
			case 1:
				b = append(b[:p], b[p+1:]...)
			default:
				b = append(b[:p], append([]byte{alphabet[c.rng.Intn(len(alphabet))]}, b[p:]...)...)
			}
			s = string(b)
			kind = "mutated"
		}
		c.count("instant-text", kind)
		c.tParse(s)
	}
}

// ---- metadata fixed point (testing: direct oracle only; there is no model of encoding/xml) ----

func (c *Ctx) randEntityDescriptor() saml.EntityDescriptor {
	b64 := func(k string) string { return base64.StdEncoding.EncodeToString(c.key(k).Cert.Raw) }
	loc := func() string {
		return c.pick("https://sp.example.com/saml/acs", "https://idp.example.com/sso?x=1&y=2", "http://localhost:8000/a b", "https://example.com/ü/%41", "https://h.example/p#frag")
	}
	kds := func() []saml.KeyDescriptor {
		var out []saml.KeyDescriptor
		for i := c.rng.Intn(3); i > 0; i-- {
			kd := saml.KeyDescriptor{Use: c.pick("signing", "encryption", "")}
			for j := 1 + c.rng.Intn(2); j > 0; j-- {
				kd.KeyInfo.X509Data.X509Certificates = append(kd.KeyInfo.X509Data.X509Certificates, saml.X509Certificate{Data: b64(c.pick("idp", "sp", "ec256"))})
			}
			if c.chance(0.3) {
				kd.EncryptionMethods = []saml.EncryptionMethod{{Algorithm: "http://www.w3.org/2001/04/xmlenc#aes128-cbc"}}
			}
			out = append(out, kd)
		}
		return out
	}
	ed := saml.EntityDescriptor{EntityID: c.pick("https://sp.example.com/metadata", "urn:example:sp", "https://idp.example.com/saml/metadata?a=b&c=d", c.hostile(false))}
	if c.chance(0.6) {
		ed.ValidUntil = time.Unix(1700000000+c.rng.Int63n(400000000), int64(c.rng.Intn(1000))*1000000+int64(c.rng.Intn(2))*int64(c.rng.Intn(1000000))).UTC()
	}
	if c.chance(0.6) {
		ed.CacheDuration = time.Duration(c.rng.Int63n(int64(72*time.Hour))) + time.Duration(c.rng.Intn(2))*time.Duration(c.rng.Intn(1000000000))
	}
	if c.chance(0.3) {
		ed.ID = "id-" + fmt.Sprint(c.rng.Intn(1000))
	}
	for i := c.rng.Intn(2) + map[bool]int{true: 1, false: 0}[c.chance(0.6)]; i > 0; i-- {
		var d saml.SPSSODescriptor
		d.ProtocolSupportEnumeration = "urn:oasis:names:tc:SAML:2.0:protocol"
		d.KeyDescriptors = kds()
		if c.chance(0.5) {
			t := c.chance(0.5)
			d.AuthnRequestsSigned = &t
		}
		if c.chance(0.5) {
			t := c.chance(0.5)
			d.WantAssertionsSigned = &t
		}
		for j := 1 + c.rng.Intn(3); j > 0; j-- {
			ep := saml.IndexedEndpoint{Binding: mdBindingsPool[c.rng.Intn(len(mdBindingsPool))], Location: loc(), Index: c.rng.Intn(5)}
			if c.chance(0.3) {
				x := c.chance(0.5)
				ep.IsDefault = &x
			}
			d.AssertionConsumerServices = append(d.AssertionConsumerServices, ep)
		}
		for j := c.rng.Intn(2); j > 0; j-- {
			d.SingleLogoutServices = append(d.SingleLogoutServices, saml.Endpoint{Binding: mdBindingsPool[c.rng.Intn(len(mdBindingsPool)-1)], Location: loc(), ResponseLocation: loc()})
		}
		if c.chance(0.3) {
			d.NameIDFormats = []saml.NameIDFormat{saml.TransientNameIDFormat, saml.EmailAddressNameIDFormat}
		}
		if c.chance(0.3) {
			as := saml.AttributeConsumingService{Index: c.rng.Intn(3), ServiceNames: []saml.LocalizedName{{Lang: "en", Value: "svc"}}}
			as.RequestedAttributes = []saml.RequestedAttribute{{Attribute: saml.Attribute{Name: "email", NameFormat: "urn:oasis:names:tc:SAML:2.0:attrname-format:basic", FriendlyName: c.hostile(false)}}}
			d.AttributeConsumingServices = append(d.AttributeConsumingServices, as)
		}
		ed.SPSSODescriptors = append(ed.SPSSODescriptors, d)
	}
	for i := c.rng.Intn(2); i > 0; i-- {
		var d saml.IDPSSODescriptor
		d.ProtocolSupportEnumeration = "urn:oasis:names:tc:SAML:2.0:protocol"
		d.KeyDescriptors = kds()
		for j := 1 + c.rng.Intn(2); j > 0; j-- {
			d.SingleSignOnServices = append(d.SingleSignOnServices, saml.Endpoint{Binding: mdBindingsPool[c.rng.Intn(len(mdBindingsPool)-1)], Location: loc()})
		}
		if c.chance(0.3) {
			t := c.chance(0.5)
			d.WantAuthnRequestsSigned = &t
		}
		ed.IDPSSODescriptors = append(ed.IDPSSODescriptors, d)
	}
	if c.chance(0.2) {
		ed.Organization = &saml.Organization{OrganizationNames: []saml.LocalizedName{{Lang: "en", Value: c.hostile(false)}}, OrganizationURLs: []saml.LocalizedURI{{Lang: "en", Value: "https://example.com"}}}
	}
	return ed
}

type mdSummary struct {
	EntityID string
	Valid    int64
	Cache    int64
	Eps      []string
	Keys     []string
}

func summarize(ed *saml.EntityDescriptor) mdSummary {
	s := mdSummary{EntityID: ed.EntityID, Cache: int64(ed.CacheDuration)}
	if !ed.ValidUntil.IsZero() {
		s.Valid = ed.ValidUntil.UnixMilli()
	}
	for _, d := range ed.SPSSODescriptors {
		for _, e := range d.AssertionConsumerServices {
			def := "-"
			if e.IsDefault != nil {
				def = fmt.Sprint(*e.IsDefault)
			}
			s.Eps = append(s.Eps, fmt.Sprintf("acs|%s|%s|%d|%s", e.Binding, e.Location, e.Index, def))
		}
		for _, e := range d.SingleLogoutServices {
			s.Eps = append(s.Eps, fmt.Sprintf("slo|%s|%s|%s", e.Binding, e.Location, e.ResponseLocation))
		}
		for _, k := range d.KeyDescriptors {
			for _, x := range k.KeyInfo.X509Data.X509Certificates {
				s.Keys = append(s.Keys, "sp|"+k.Use+"|"+x.Data)
			}
		}
	}
	for _, d := range ed.IDPSSODescriptors {
		for _, e := range d.SingleSignOnServices {
			s.Eps = append(s.Eps, fmt.Sprintf("sso|%s|%s", e.Binding, e.Location))
		}
		for _, k := range d.KeyDescriptors {
			for _, x := range k.KeyInfo.X509Data.X509Certificates {
				s.Keys = append(s.Keys, "idp|"+k.Use+"|"+x.Data)
			}
		}
	}
	return s
}

func (c *Ctx) metadataFixpoint(name string, ed saml.EntityDescriptor, requireEqual bool) {
	orc := ""
	impl := safely(func() string {
		g1, err := xml.Marshal(ed)
		if err != nil {
			return "err marshal"
		}
		var v1 saml.EntityDescriptor
		if err := xml.Unmarshal(g1, &v1); err != nil {
			orc = "key=c15-metadata-unparseable generated metadata does not re-parse: " + err.Error()
			return "err reparse"
		}
		g2, err := xml.Marshal(v1)
		if err != nil {
			return "err marshal2"
		}
		var v2 saml.EntityDescriptor
		if err := xml.Unmarshal(g2, &v2); err != nil {
			orc = "key=c15-metadata-unparseable second generation does not re-parse: " + err.Error()
			return "err reparse2"
		}
		g3, _ := xml.Marshal(v2)
		if !bytes.Equal(g2, g3) || !reflect.DeepEqual(v1, v2) {
			orc = "key=c15-metadata-no-fixpoint the value keeps changing after one marshal/unmarshal generation"
		}
		// by design (metadata.go checkEndpointLocation) the location of an endpoint whose binding the library does not know is blanked on
		// reading; the property is about http(s) endpoints of the known bindings
		blanked := ed
		blanked.SPSSODescriptors = append([]saml.SPSSODescriptor{}, ed.SPSSODescriptors...)
		for i := range blanked.SPSSODescriptors {
			d := blanked.SPSSODescriptors[i]
			d.AssertionConsumerServices = append([]saml.IndexedEndpoint{}, d.AssertionConsumerServices...)
			for j := range d.AssertionConsumerServices {
				if d.AssertionConsumerServices[j].Binding == "urn:unknown:binding" {
					d.AssertionConsumerServices[j].Location = ""
				}
			}
			blanked.SPSSODescriptors[i] = d
		}
		want := summarize(&blanked)
		if want.Valid != 0 {
			want.Valid = ed.ValidUntil.Round(time.Millisecond).UnixMilli()
		}
		got := summarize(&v1)
		if !reflect.DeepEqual(want, got) {
			orc = fmt.Sprintf("key=c15-metadata-not-preserved entity ID / endpoints / key descriptors / validity / cache duration changed: %+v -> %+v", want, got)
		}
		if requireEqual && !reflect.DeepEqual(normalizeMD(ed), normalizeMD(v1)) {
			orc = "key=c15-metadata-not-equal library-generated metadata does not re-parse to an equal value"
		}
		return "ok"
	})
	c.count("metadata-kind", name)
	c.emitOneWay("c15-metadata", []string{encStr(name)}, impl, orc)
}

// normalizeMD: the value up to what XML cannot distinguish (XMLName fields filled by the decoder, nil vs empty slices, time location)
func normalizeMD(ed saml.EntityDescriptor) string {
	if !ed.ValidUntil.IsZero() {
		ed.ValidUntil = ed.ValidUntil.Round(time.Millisecond).UTC()
	}
	for i := range ed.SPSSODescriptors {
		if ed.SPSSODescriptors[i].ValidUntil != nil {
			t := ed.SPSSODescriptors[i].ValidUntil.Round(time.Millisecond).UTC()
			ed.SPSSODescriptors[i].ValidUntil = &t
		}
	}
	for i := range ed.IDPSSODescriptors {
		if ed.IDPSSODescriptors[i].ValidUntil != nil {
			t := ed.IDPSSODescriptors[i].ValidUntil.Round(time.Millisecond).UTC()
			ed.IDPSSODescriptors[i].ValidUntil = &t
		}
	}
	b, _ := xml.Marshal(ed)
	return string(b)
}

// entitiesFixpoint: the same for an EntitiesDescriptor (aggregate), handed to the encoder by value and by pointer
func (c *Ctx) entitiesFixpoint(es saml.EntitiesDescriptor) {
	orc := ""
	impl := safely(func() string {
		byValue, err := xml.Marshal(es)
		if err != nil {
			return "err marshal"
		}
		byPointer, err := xml.Marshal(&es)
		if err != nil {
			return "err marshal"
		}
		if !bytes.Equal(byValue, byPointer) {
			orc = "key=c15-entities-by-value an EntitiesDescriptor marshals differently by value and by pointer"
			return "ok"
		}
		var v1 saml.EntitiesDescriptor
		if err := xml.Unmarshal(byValue, &v1); err != nil {
			orc = "key=c15-metadata-unparseable generated EntitiesDescriptor does not re-parse: " + err.Error()
			return "err reparse"
		}
		g2, err := xml.Marshal(v1)
		if err != nil {
			return "err marshal2"
		}
		var v2 saml.EntitiesDescriptor
		if err := xml.Unmarshal(g2, &v2); err != nil {
			orc = "key=c15-metadata-unparseable second generation of an EntitiesDescriptor does not re-parse: " + err.Error()
			return "err reparse2"
		}
		g3, _ := xml.Marshal(v2)
		if !bytes.Equal(g2, g3) || !reflect.DeepEqual(v1, v2) {
			orc = "key=c15-metadata-no-fixpoint an EntitiesDescriptor keeps changing after one marshal/unmarshal generation"
		}
		// validity instant (rounded to the millisecond) and cache duration of the aggregate, member entity IDs in order
		if (es.ValidUntil == nil) != (v1.ValidUntil == nil) || es.ValidUntil != nil && !es.ValidUntil.Round(time.Millisecond).Equal(*v1.ValidUntil) {
			orc = "key=c15-metadata-not-preserved validUntil of an EntitiesDescriptor is not preserved"
		}
		if (es.CacheDuration == nil) != (v1.CacheDuration == nil) || es.CacheDuration != nil && *es.CacheDuration != *v1.CacheDuration {
			orc = "key=c15-metadata-not-preserved cacheDuration of an EntitiesDescriptor is not preserved"
		}
		var ids func(e saml.EntitiesDescriptor) []string
		ids = func(e saml.EntitiesDescriptor) []string {
			var out []string
			for _, n := range e.EntitiesDescriptors {
				out = append(out, "("+strings.Join(ids(n), ",")+")")
			}
			for _, d := range e.EntityDescriptors {
				out = append(out, d.EntityID)
			}
			return out
		}
		if strings.Join(ids(es), ",") != strings.Join(ids(v1), ",") {
			orc = "key=c15-metadata-not-preserved members of an EntitiesDescriptor are not preserved"
		}
		return "ok"
	})
	c.count("metadata-kind", "entities")
	c.emitOneWay("c15-entities", nil, impl, orc)
}

func (c *Ctx) randEntities(depth int) saml.EntitiesDescriptor {
	var es saml.EntitiesDescriptor
	if c.chance(0.6) {
		t := baseTime.Add(time.Duration(c.rng.Int63n(int64(1000 * time.Hour)))).In(time.FixedZone("x", (c.rng.Intn(25)-12)*3600))
		if c.chance(0.5) {
			t = t.Truncate(time.Millisecond).UTC()
		}
		es.ValidUntil = &t
	}
	if c.chance(0.6) {
		d := time.Duration(c.rng.Int63n(int64(100*time.Hour))) + time.Duration(c.rng.Intn(3))*time.Nanosecond
		if c.chance(0.5) {
			d = d.Truncate(time.Second)
		}
		if d == 0 {
			d = time.Hour
		}
		es.CacheDuration = &d
	}
	if c.chance(0.3) {
		n := "aggregate"
		es.Name = &n
	}
	for i := c.rng.Intn(3); i > 0; i-- {
		es.EntityDescriptors = append(es.EntityDescriptors, c.randEntityDescriptor())
	}
	if depth > 0 {
		for i := c.rng.Intn(2); i > 0; i-- {
			es.EntitiesDescriptors = append(es.EntitiesDescriptors, c.randEntities(depth-1))
		}
	}
	return es
}

// mdNorm: the model's one-generation normal form (Model/Metadata.lean: read (write v)) against the real
// xml.Unmarshal(xml.Marshal(ed)), on the fields C15 names — entity ID, validity instant, cache duration, the endpoints of
// the SP and IdP descriptors in document order, key descriptors
func (c *Ctx) mdNorm(ed saml.EntityDescriptor) {
	render := func(e *saml.EntityDescriptor) (eps []string, neps int, keys []string, nkeys int) {
		one := func(indexed bool, binding, loc string, resp *string) {
			r := []string{"-"}
			if resp != nil {
				r = []string{"+", encBytes([]byte(*resp))}
			}
			eps = append(eps, joinToks([]string{encBool(indexed), encStr(binding), encBytes([]byte(loc))}, r)...)
			neps++
		}
		plain := func(x saml.Endpoint) {
			var r *string
			if x.ResponseLocation != "" {
				v := x.ResponseLocation
				r = &v
			}
			one(false, x.Binding, x.Location, r)
		}
		kd := func(k saml.KeyDescriptor) {
			var certs []string
			for _, x := range k.KeyInfo.X509Data.X509Certificates {
				certs = append(certs, x.Data)
			}
			keys = append(keys, joinToks([]string{encStr(k.Use)}, encStrList(certs))...)
			nkeys++
		}
		for _, d := range e.SPSSODescriptors {
			for _, x := range d.AssertionConsumerServices {
				one(true, x.Binding, x.Location, x.ResponseLocation)
			}
			for _, x := range d.SingleLogoutServices {
				plain(x)
			}
			for _, k := range d.KeyDescriptors {
				kd(k)
			}
		}
		for _, d := range e.IDPSSODescriptors {
			for _, x := range d.SingleSignOnServices {
				plain(x)
			}
			for _, k := range d.KeyDescriptors {
				kd(k)
			}
		}
		return
	}
	eps, neps, keys, nkeys := render(&ed)
	toks := joinToks([]string{encStr(ed.EntityID), encInt(ed.ValidUntil.Unix()), encInt(int64(ed.ValidUntil.Nanosecond())), encInt(int64(ed.CacheDuration)), fmt.Sprint(neps)}, eps, []string{fmt.Sprint(nkeys)}, keys)
	impl := safely(func() string {
		g1, err := xml.Marshal(ed)
		if err != nil {
			return "err"
		}
		var v1 saml.EntityDescriptor
		if err := xml.Unmarshal(g1, &v1); err != nil {
			return "err"
		}
		e1, n1, k1, nk1 := render(&v1)
		return strings.Join(joinToks([]string{"ok", encStr(v1.EntityID), encInt(v1.ValidUntil.UnixMilli()), encInt(int64(v1.CacheDuration)), fmt.Sprint(n1)}, e1, []string{fmt.Sprint(nk1)}, k1), " ")
	})
	c.count("c15-mdnorm", strings.SplitN(impl, " ", 2)[0])
	c.emitOneWay("mdnorm", toks, impl, "")
}

func (c *Ctx) genC15Metadata() {
	n := 300
	if !c.quick() {
		n = 6000
	}
	for i := 0; i < n; i++ {
		ed := c.randEntityDescriptor()
		c.metadataFixpoint("generated", ed, false)
		c.mdNorm(ed)
	}
	for i := 0; i < n/3; i++ {
		c.entitiesFixpoint(c.randEntities(2))
	}
	// what the library itself publishes
	saml.TimeNow = func() time.Time { return baseTime.Add(time.Duration(c.rng.Intn(1000)) * time.Millisecond) }
	for i := 0; i < 40; i++ {
		cfg := e2eCfg{KeyName: c.pick("sp", "sp2", "ec256", "none"), EntityID: c.pick("", "https://sp.example.com/entity")}
		cfg.SigMethod = spSigMethodFor(cfg.KeyName, c)
		sp := c.buildSP(cfg, &saml.EntityDescriptor{})
		sp.SloURL = mustURL("https://sp.example.com/saml/slo")
		if c.chance(0.5) {
			sp.LogoutBindings = []string{saml.HTTPPostBinding, saml.HTTPRedirectBinding}
		}
		c.metadataFixpoint("sp.Metadata()", *sp.Metadata(), true)
		idp := c.newIDPX(nil, nil, c.randConf())
		idp.LogoutURL = mustURL("https://idp.example.com/saml/slo")
		c.metadataFixpoint("idp.Metadata()", *idp.Metadata(), true)
	}
}

// every binding the package knows an http(s) location for (both SOAP bindings included), and — last, used for assertion consumer
// services only, as before — one it does not know
var mdBindingsPool = []string{saml.HTTPPostBinding, saml.HTTPRedirectBinding, saml.HTTPArtifactBinding, saml.SOAPBinding, saml.SOAPBindingV1, "urn:unknown:binding"}
