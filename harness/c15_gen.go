package main

// C15: durations, instants, metadata round trips.

import (
	"fmt"
	"math"
	"strings"

	"github.com/crewjam/saml"
)

func init() { gens["C15"] = (*Ctx).genC15 }

func (c *Ctx) durRT(d int64) {
	var text string
	impl := safely(func() string {
		b, err := saml.Duration(d).MarshalText()
		if err != nil {
			return "err"
		}
		text = string(b)
		var back saml.Duration
		if d != 0 || b != nil { // zero marshals to nil, which unmarshals to zero
			var in []byte = b
			if err := back.UnmarshalText(in); err != nil {
				return encStr(text) + " err"
			}
		}
		return encStr(text) + " ok " + fmt.Sprint(int64(back))
	})
	orc := ""
	want := encStr(text) + " ok " + fmt.Sprint(d)
	if impl != want {
		orc = "key=" + durKey(d) + " UnmarshalText(MarshalText(d)) != d for d=" + fmt.Sprint(d) + ": " + impl
	}
	c.emit("durrt", []string{encInt(d)}, impl, orc)
}

func durKey(d int64) string {
	if d == math.MinInt64 {
		return "duration-minint64"
	}
	if d%1000000000 != 0 {
		return "duration-subsecond"
	}
	return "duration-other"
}

func (c *Ctx) durParse(s string) {
	impl := safely(func() string {
		var d saml.Duration
		if err := d.UnmarshalText([]byte(s)); err != nil {
			return "err"
		}
		return "ok " + fmt.Sprint(int64(d))
	})
	c.emit("durparse", []string{encStr(s)}, impl, "")
}

func (c *Ctx) genC15() {
	const (
		ns  = int64(1)
		sec = int64(1000000000)
		min = 60 * sec
		hr  = 60 * min
	)
	// boundary classes, exhaustively
	var ds []int64
	ds = append(ds, 0, math.MaxInt64, math.MinInt64, math.MinInt64+1, math.MaxInt64-1)
	for _, base := range []int64{0, sec, 59 * sec, min, 59 * min, hr, 24 * hr, 25*hr + min + sec, 2562047 * hr} {
		for _, delta := range []int64{-1, 0, 1, 999999999, -999999999} {
			ds = append(ds, base+delta, -(base + delta))
		}
	}
	// each sub-second digit count
	for k := 0; k < 9; k++ {
		p := int64(math.Pow10(k))
		for _, m := range []int64{1, 9, 5, 7} {
			ds = append(ds, m*p, sec+m*p, -(m * p), 59*sec+999999999-m*p+1)
		}
	}
	// every seconds and minutes count (trailing-zero digits in any field), with and without a fraction
	for m := int64(0); m < 60; m++ {
		for sx := int64(0); sx < 60; sx++ {
			ds = append(ds, m*min+sx*sec, 3*hr+m*min+sx*sec+500000000, -(m*min + sx*sec + 10))
		}
	}
	for h := int64(0); h <= 120; h++ {
		ds = append(ds, h*hr, h*hr+10*sec)
	}
	for _, d := range ds {
		c.count("dur-class", "boundary")
		c.durRT(d)
	}
	n := 4000
	if !c.quick() {
		n = 200000
	}
	for i := 0; i < n; i++ {
		var d int64
		switch c.rng.Intn(5) {
		case 0:
			d = c.rng.Int63n(sec) // pure sub-second
		case 1:
			d = c.rng.Int63n(100*sec)
		case 2:
			d = c.rng.Int63n(100 * hr)
		case 3:
			d = int64(c.rng.Uint64())
		default:
			d = int64(c.rng.Intn(1000)) * int64(math.Pow10(c.rng.Intn(9))) // few significant digits
		}
		if c.chance(0.3) {
			d = -d
		}
		c.count("dur-class", "random")
		c.durRT(d)
	}
	// grammar-generated and mutated strings
	fixed := []string{"", "P", "PT", "-P", "-PT", "P1Y", "P1M", "P1D", "PT1H", "PT1M", "PT1S", "PT1.5S", "PT0.000000001S", "PT0.0000000019S", "P1Y2M3DT4H5M6.789S",
		"P1YT", "PT1H1H", "PT1M1H", "P1M1Y", "P1D1M", "PT1", "P1", "PT1.S", "PT.5S", "PT1.5", "P-1D", "+P1D", "P1DT", "P1DT\n", "PT1S\n", " PT1S", "PT1S ",
		"pt1s", "P1W", "P1.5D", "PT1.5H", "PT1.5M", "PT1,5S", "P9223372036854775807Y", "P9223372036854775808D", "PT9223372036854775807S", "PT9223372036854775808S",
		"PT99999999999999999999S", "P99999999999999999999Y", "PT2562047H47M16.854775807S", "PT2562047H47M16.854775808S", "-PT2562047H47M16.854775808S",
		"PT2562048H", "P106751D", "P106752D", "PT1.0000000001S", "PT0.9999999999S", "PT00001S", "PT1.50S", "P٣D", "PT１S", "P1D2", "PTS", "PT5M10", "P1YT1H\x00"}
	for _, s := range fixed {
		c.count("durparse-class", "fixed")
		c.durParse(s)
	}
	n = 3000
	if !c.quick() {
		n = 100000
	}
	for i := 0; i < n; i++ {
		var sb strings.Builder
		if c.chance(0.2) {
			sb.WriteString("-")
		}
		sb.WriteString("P")
		num := func() string {
			switch c.rng.Intn(6) {
			case 0:
				return fmt.Sprint(c.rng.Intn(10))
			case 1:
				return fmt.Sprint(c.rng.Intn(100000))
			case 2:
				return fmt.Sprint(c.rng.Uint64())
			case 3:
				return "0" + fmt.Sprint(c.rng.Intn(100))
			default:
				return fmt.Sprint(c.rng.Intn(61))
			}
		}
		for _, u := range []string{"Y", "M", "D"} {
			if c.chance(0.3) {
				sb.WriteString(num() + u)
			}
		}
		if c.chance(0.7) {
			sb.WriteString("T")
			for _, u := range []string{"H", "M"} {
				if c.chance(0.4) {
					sb.WriteString(num() + u)
				}
			}
			if c.chance(0.6) {
				sb.WriteString(num())
				if c.chance(0.6) {
					sb.WriteString("." + strings.Repeat("0", c.rng.Intn(3)) + fmt.Sprint(c.rng.Intn(1000000)) + strings.Repeat("0", c.rng.Intn(4)))
				}
				sb.WriteString("S")
			}
		}
		s := sb.String()
		kind := "grammar"
		if c.chance(0.25) && len(s) > 1 { // mutate one position
			kind = "mutated"
			b := []byte(s)
			pos := c.rng.Intn(len(b))
			switch c.rng.Intn(4) {
			case 0:
				b = append(b[:pos], b[pos+1:]...)
			case 1:
				b[pos] = "PTYMDHS.-0 9x"[c.rng.Intn(13)]
			case 2:
				b = append(b[:pos], append([]byte{"PTYMDHS.-09"[c.rng.Intn(11)]}, b[pos:]...)...)
			default:
				b[pos], b[len(b)-1-pos] = b[len(b)-1-pos], b[pos]
			}
			s = string(b)
		}
		c.count("durparse-class", kind)
		c.durParse(s)
	}
}
