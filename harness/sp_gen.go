package main

// Generators for C02, C03, C04 (shared SP.Struct model): boundary lattices and near-miss lattices
// rendered to really signed XML and parsed by the real ServiceProvider.

import (
	"github.com/crewjam/saml/samlsp"
	"sort"
	"bytes"
	"encoding/base64"
	"errors"
	"fmt"
	"io"
	"net/http"
	"net/url"
	"strings"
	"sync"

	"github.com/beevik/etree"
	"github.com/crewjam/saml"
	"time"
)

const (
	idpEntity = "https://idp.example.com/saml/metadata"
	acsURL    = "https://sp.example.com/saml/acs"
	spEntity  = "https://sp.example.com/entity"
	spMDURL   = "https://sp.example.com/saml/metadata"
	successSt = "urn:oasis:names:tc:SAML:2.0:status:Success"
)

func baseCfg() SPCfg {
	return SPCfg{IDPEntity: idpEntity, Acs: acsURL, EntityID: spEntity, MetadataURL: spMDURL, ReqV: "n", AudV: "n",
		Delay: 90000, Skew: 180000, Success: successSt, Trust: []string{"idp"}}
}

func baseAssn(cfg SPCfg, now int64, ident string) Assn {
	return Assn{II: now - 1000, Issuer: sp(cfg.IDPEntity),
		Subject: &[]SConf{{Data: &SCd{IRT: "id-req1", Recipient: cfg.Acs, NOA: now + 60000}}},
		Cond:    &Cond{NB: now - 1000, NOA: now + 60000, Auds: []string{firstSetStr(cfg.EntityID, cfg.MetadataURL)}},
		Ident:   ident, Sig: "idp", Wrap: "p"}
}

func baseResp(cfg SPCfg, now int64) Resp {
	return Resp{Dest: cfg.Acs, IRT: "id-req1", II: now - 1000, Issuer: sp(cfg.IDPEntity), Status: cfg.Success,
		Entries: []Assn{baseAssn(cfg, now, "alice")}, Sig: "none"}
}

type spCase struct {
	cfg   SPCfg
	now   int64
	ids   []string
	url   string
	r     Resp
	lex   int
	entry string // xml | post
	spKey string // "" = the RSA key the assertions are encrypted to | ec | none (then nothing can be decrypted: wrap b-spkey)
}

var scMethods = []string{"urn:oasis:names:tc:SAML:2.0:cm:holder-of-key", "urn:oasis:names:tc:SAML:2.0:cm:sender-vouches", "absent", "urn:oasis:names:tc:SAML:2.0:cm:BEARER"}

func (c *Ctx) runSP(k spCase) string {
	// metamorphic dimension outside the model: the confirmation Method must not matter
	for ei := range k.r.Entries {
		if k.r.Entries[ei].Subject == nil {
			continue
		}
		scs := *k.r.Entries[ei].Subject
		for si := range scs {
			if c.chance(0.3) {
				scs[si].Method = scMethods[c.rng.Intn(len(scMethods))]
				c.count("confirmation-method", scs[si].Method)
			} else {
				c.count("confirmation-method", "bearer")
			}
		}
	}
	b := &builder{c: c, lexStyle: k.lex, spCert: c.key("sp").Cert, badCert: c.key("sp2").Cert}
	xmlBytes := elBytes(b.responseEl(k.r))
	setGlobals(k.cfg, k.now)
	s := c.realSP(k.cfg)
	switch k.spKey {
	case "ec":
		ek := c.key("ec256")
		s.Key, s.Certificate = ek.Key, ek.Cert
	case "none":
		s.Key, s.Certificate = nil, nil
	}
	impl := safely(func() string {
		u := mustURL(k.url)
		if k.entry == "post" {
			req, _ := http.NewRequest("POST", k.url, nil)
			req.PostForm = url.Values{"SAMLResponse": {base64.StdEncoding.EncodeToString(xmlBytes)}}
			req.Form = req.PostForm
			return canonParse(s.ParseResponse(req, k.ids))
		}
		return canonParse(s.ParseXMLResponse(xmlBytes, k.ids, u))
	})
	spec := specParse(k.cfg, k.now, k.ids, k.url, true, k.r)
	toks := joinToks(k.cfg.toks(), []string{encInt(k.now)}, encStrList(k.ids), []string{encStr(k.url), "r", sigState(k.r.Sig, k.cfg)}, k.r.toks(k.cfg))
	orc := oracleCmp(spec, impl)
	if len(k.ids) == 0 {
		// "no outstanding IDs" is one thing, however the caller's slice happens to be represented (nil, empty, empty with capacity)
		for name, alt := range map[string][]string{"nil": nil, "empty": {}, "empty-cap": make([]string, 0, 4)} {
			other := safely(func() string { return canonParse(s.ParseXMLResponse(xmlBytes, alt, mustURL(k.url))) })
			c.count("c04-empty-id-list", name)
			if other != impl && orc == "" {
				orc = "with no outstanding request IDs the verdict depends on the representation of the empty list: " + name + " gives " + other + ", the call under test gave " + impl
			}
		}
	}
	if po := panicOracle(impl, "ParseXMLResponse"); po != "" {
		orc = po
	}
	return c.emit("spstruct", toks, impl, orc)
}

// position of an instant relative to its acceptance boundary b; dir=+1 means "larger is inside"
func place(b int64, dir int64, pos int) int64 {
	switch pos {
	case 0:
		return b // exactly on the boundary (inclusive)
	case 1:
		return b + dir // 1 ms inside
	case 2:
		return b - dir // 1 ms outside
	case 3:
		return b + dir*3600000 // far inside
	default:
		return b - dir*3600000 // far outside
	}
}

var posName = []string{"on", "in1", "out1", "farIn", "farOut"}

func (c *Ctx) lattice(cfg SPCfg, now int64, lex int) {
	for p0 := 0; p0 < 5; p0++ {
		for p1 := 0; p1 < 5; p1++ {
			for p2 := 0; p2 < 5; p2++ {
				for p3 := 0; p3 < 5; p3++ {
					for p4 := 0; p4 < 5; p4++ {
						r := baseResp(cfg, now)
						a := &r.Entries[0]
						r.II = place(now-cfg.Delay, 1, p0)
						a.II = place(now-cfg.Delay, 1, p1)
						a.Cond.NB = place(now+cfg.Skew, -1, p2)
						a.Cond.NOA = place(now-cfg.Skew, 1, p3)
						(*a.Subject)[0].Data.NOA = place(now-cfg.Skew, 1, p4)
						c.count("lattice-pos", posName[p0]+"/"+posName[p1]+"/"+posName[p2]+"/"+posName[p3]+"/"+posName[p4])
						c.runSP(spCase{cfg: cfg, now: now, ids: []string{"id-req1"}, url: cfg.Acs, r: r, lex: lex, entry: "xml"})
					}
				}
			}
		}
	}
}

// shapeLattice: every instant at every boundary position, one at a time, on messages whose *shape* differs in ways that must not
// matter for the time checks (no Response Issuer, no Destination, signature on the Response instead of the assertion, encrypted
// assertion, POST entry point)
func (c *Ctx) shapeLattice(cfg SPCfg, now int64) {
	shapes := []string{"no-response-issuer", "no-destination", "response-signed", "encrypted", "no-issuer+no-destination", "post-entry"}
	for _, shape := range shapes {
		for field := 0; field < 5; field++ {
			for pos := 0; pos < 5; pos++ {
				r := baseResp(cfg, now)
				a := &r.Entries[0]
				entry := "xml"
				switch shape {
				case "no-response-issuer":
					r.Issuer = nil
				case "no-destination":
					r.Dest = ""
				case "response-signed":
					r.Sig, a.Sig = "idp", "none"
				case "encrypted":
					a.Wrap = "e"
				case "no-issuer+no-destination":
					r.Issuer, r.Dest = nil, ""
				case "post-entry":
					entry = "post"
				}
				switch field {
				case 0:
					r.II = place(now-cfg.Delay, 1, pos)
				case 1:
					a.II = place(now-cfg.Delay, 1, pos)
				case 2:
					a.Cond.NB = place(now+cfg.Skew, -1, pos)
				case 3:
					a.Cond.NOA = place(now-cfg.Skew, 1, pos)
				default:
					(*a.Subject)[0].Data.NOA = place(now-cfg.Skew, 1, pos)
				}
				c.count("shape-lattice", shape)
				c.runSP(spCase{cfg: cfg, now: now, ids: []string{"id-req1"}, url: cfg.Acs, r: r, lex: field + pos, entry: entry})
			}
		}
	}
}

var tolConfigs = [][2]int64{{90000, 180000}, {0, 0}, {1, 1}, {86400000 * 365, 86400000 * 365}, {5000, 600000}, {600000, 5000}, {-5000, -7000}, {0, 180000}, {90000, 0}}

func (c *Ctx) genC02() {
	now := ms(baseTime)
	cfg := baseCfg()
	c.lattice(cfg, now, 0)
	c.shapeLattice(cfg, now)
	// the artifact binding: the envelope (ArtifactResponse) carries its own, older but still fresh, IssueInstant; the windows of
	// what is inside are measured against the library clock all the same — an instant between the envelope's stamp and the
	// clock must fall on the side of the clock
	for _, gap := range []int64{80_000, 30_000, 1} {
		for _, which := range []string{"none", "cond-noa", "sc-noa", "resp-ii", "assn-ii", "cond-nb"} {
			for _, asig := range []string{"idp", "none"} {
				acfg := baseCfg()
				r := baseResp(acfg, now)
				r.Sig = "idp"
				mid := gap / 2
				switch which {
				case "cond-noa": // lapsed by the clock, not yet by the envelope's stamp
					r.Entries[0].Cond.NOA = now - acfg.Skew - mid
				case "sc-noa":
					(*r.Entries[0].Subject)[0].Data.NOA = now - acfg.Skew - mid
				case "resp-ii":
					r.II = now - acfg.Delay - mid
				case "assn-ii":
					r.Entries[0].II = now - acfg.Delay - mid
				case "cond-nb": // valid by the clock, not yet by the envelope's stamp
					r.Entries[0].Cond.NB = now + acfg.Skew - mid
				}
				k := artCase{cfg: acfg, now: now, ids: []string{"id-req1"}, irtMode: "match", ii: now - gap, issuer: sp(acfg.IDPEntity), status: acfg.Success, sig: asig, resp: &r, respCount: 1}
				c.count("c02-artifact-envelope-older-than-clock", which)
				c.runArtifact(k, false)
			}
		}
	}
	{
		// the SP's other configuration switches (custom audience / request-ID hooks that accept, IdP-initiated allowed,
		// no explicit entity ID) must not matter to any validity window
		cfgS := baseCfg()
		cfgS.AudV, cfgS.ReqV, cfgS.AllowIDP, cfgS.EntityID = "t", "t", true, ""
		c.lattice(cfgS, now+1234, 50)
		c.shapeLattice(cfgS, now+1234)
	}
	{
		cfg2 := baseCfg()
		cfg2.Delay, cfg2.Skew = 600000, 5000
		c.shapeLattice(cfg2, now+4242)
	}
	if !c.quick() {
		for i, tc := range tolConfigs[1:] {
			cfg := baseCfg()
			cfg.Delay, cfg.Skew = tc[0], tc[1]
			c.lattice(cfg, now+int64(i)*7777, i+1)
		}
	}
	// several confirmations / assertions, failing one in each position; random tolerances and forms
	n := 400
	if !c.quick() {
		n = 6000
	}
	for i := 0; i < n; i++ {
		cfg := baseCfg()
		tc := tolConfigs[c.rng.Intn(len(tolConfigs))]
		cfg.Delay, cfg.Skew = tc[0], tc[1]
		if c.chance(0.3) {
			cfg.AudV, cfg.ReqV, cfg.AllowIDP = c.pick("n", "t"), c.pick("n", "t"), c.chance(0.5)
		}
		nowi := now + int64(c.rng.Intn(1000000))
		r := baseResp(cfg, nowi)
		r.II = place(nowi-cfg.Delay, 1, c.rng.Intn(5)%4+0)
		if c.chance(0.8) {
			r.II = place(nowi-cfg.Delay, 1, []int{0, 1, 3}[c.rng.Intn(3)])
		}
		nA := 1 + c.rng.Intn(3)
		r.Entries = nil
		for j := 0; j < nA; j++ {
			a := baseAssn(cfg, nowi, fmt.Sprintf("user%d", j))
			okPos := func() int {
				if c.chance(0.85) {
					return []int{0, 1, 3}[c.rng.Intn(3)]
				}
				return []int{2, 4}[c.rng.Intn(2)]
			}
			a.II = place(nowi-cfg.Delay, 1, okPos())
			a.Cond.NB = place(nowi+cfg.Skew, -1, okPos())
			a.Cond.NOA = place(nowi-cfg.Skew, 1, okPos())
			if c.chance(0.05) {
				a.Cond.NB = zeroTimeMs
			}
			if c.chance(0.05) {
				a.Cond.NOA = zeroTimeMs
			}
			nC := 1 + c.rng.Intn(3)
			scs := []SConf{}
			for q := 0; q < nC; q++ {
				scs = append(scs, SConf{Data: &SCd{IRT: "id-req1", Recipient: cfg.Acs, NOA: place(nowi-cfg.Skew, 1, okPos())}})
			}
			if c.chance(0.04) {
				scs = []SConf{}
			}
			a.Subject = &scs
			if c.chance(0.3) {
				a.Wrap = "e"
			}
			r.Entries = append(r.Entries, a)
		}
		c.count("n-assertions", fmt.Sprint(nA))
		c.runSP(spCase{cfg: cfg, now: nowi, ids: []string{"id-req1"}, url: cfg.Acs, r: r, lex: c.rng.Intn(6), entry: "xml"})
	}
}

// near-miss variants of an expected value
func nearMiss(v string) []string {
	out := []string{v, "https://evil.example.org/x", strings.ToUpper(v), v + "/", v + "?x=1", v[:len(v)-1], v + "x", "",
		// white space around the value: another string (a reader that trims is comparing something the message does not say)
		" " + v, v + " ", "  " + v + "  ", v + "   "}
	// other strings that a URL parser would call the same location: "equal" is equality of strings
	alt := []string{v + "?", v + "#", v, v, v, v}
	if rest, ok := strings.CutPrefix(v, "https://"); ok {
		host, path, _ := strings.Cut(rest, "/")
		alt[2] = "HTTPS://" + rest
		alt[3] = "https://" + host + ":443/" + path
		alt[4] = "https://login.example.net@" + rest
		if len(path) > 1 {
			alt[5] = "https://" + host + "/" + fmt.Sprintf("%%%02X", path[0]) + path[1:]
		} else {
			alt[5] = v + "%20"
		}
	} else {
		alt[2], alt[3], alt[4], alt[5] = v+"%20", "x:"+v, v+"/.", "./"+v
	}
	return append(out, alt...)
}

var nmName = []string{"correct", "wrong", "upper", "slash", "query", "prefix", "extension", "empty", "lead-space", "trail-space", "both-spaces", "trail-spaces",
	"empty-query", "empty-fragment", "scheme-case", "default-port", "userinfo", "percent-encoded"}

func (c *Ctx) genC03() {
	now := ms(baseTime)
	type mut func(cfg SPCfg, r *Resp, v string)
	fields := []struct {
		name   string
		expect func(cfg SPCfg) string
		apply  mut
		absent mut
	}{
		{"resp-issuer", func(c SPCfg) string { return c.IDPEntity }, func(_ SPCfg, r *Resp, v string) { r.Issuer = sp(v) }, func(_ SPCfg, r *Resp, _ string) { r.Issuer = nil }},
		{"assn-issuer", func(c SPCfg) string { return c.IDPEntity }, func(_ SPCfg, r *Resp, v string) { r.Entries[0].Issuer = sp(v) }, func(_ SPCfg, r *Resp, _ string) { r.Entries[0].Issuer = nil }},
		{"recipient", func(c SPCfg) string { return c.Acs }, func(_ SPCfg, r *Resp, v string) { (*r.Entries[0].Subject)[0].Data.Recipient = v }, nil},
		{"destination", func(c SPCfg) string { return c.Acs }, func(_ SPCfg, r *Resp, v string) { r.Dest = v }, nil},
		{"status", func(c SPCfg) string { return c.Success }, func(_ SPCfg, r *Resp, v string) { r.Status = v }, nil},
		{"audience", func(c SPCfg) string { return firstSetStr(c.EntityID, c.MetadataURL) }, func(_ SPCfg, r *Resp, v string) { r.Entries[0].Cond.Auds = []string{v} }, func(_ SPCfg, r *Resp, _ string) { r.Entries[0].Cond.Auds = nil }},
	}
	run := func(cfg SPCfg, r Resp, urlStr string) {
		c.runSP(spCase{cfg: cfg, now: now, ids: []string{"id-req1"}, url: urlStr, r: r, lex: c.rng.Intn(6), entry: "xml"})
	}
	variants := func(f func(cfg SPCfg, r *Resp)) {
		for _, signed := range []string{"none", "idp"} {
			for _, eid := range []string{spEntity, ""} {
				for _, audv := range []string{"n", "t", "f"} {
					if audv != "n" && c.quick() && c.chance(0.6) {
						continue
					}
					for k, urlEq := range []bool{true, false, true, false} {
						cfg := baseCfg()
						cfg.EntityID = eid
						cfg.AudV = audv
						// the other configuration switches of the SP must not matter to these checks
						cfg.AllowIDP = k >= 2
						c.count("c03-allow-idp-initiated", fmt.Sprint(cfg.AllowIDP))
						r := baseResp(cfg, now)
						r.Sig = signed
						if signed == "idp" && c.chance(0.5) {
							r.Entries[0].Sig = "none"
						}
						f(cfg, &r)
						u := cfg.Acs
						if !urlEq {
							u = "https://sp.example.com/saml/acs?session=1"
						}
						run(cfg, r, u)
					}
				}
			}
		}
	}
	// single perturbations, exhaustively
	for _, f := range fields {
		f := f
		for i := range nmName {
			i := i
			variants(func(cfg SPCfg, r *Resp) {
				f.apply(cfg, r, nearMiss(f.expect(cfg))[i])
				c.count("c03-single", f.name+":"+nmName[i])
			})
		}
		if f.absent != nil {
			variants(func(cfg SPCfg, r *Resp) { f.absent(cfg, r, ""); c.count("c03-single", f.name+":absent") })
		}
	}
	// sequences: a message without a status (no Status element, an empty one, a StatusCode without Value) right after a
	// successful one on the same process — nothing of the earlier message may stand in for what the later one lacks
	for _, shape := range []string{"absent", "empty", "novalue"} {
		for _, signed := range []string{"none", "idp"} {
			for rep := 0; rep < 3; rep++ {
				cfg := baseCfg()
				good := baseResp(cfg, now)
				good.Sig = signed
				run(cfg, good, cfg.Acs)
				r := baseResp(cfg, now)
				r.Sig = signed
				r.Status, r.StatusShape = "", shape
				c.count("c03-status-after-success", shape)
				run(cfg, r, cfg.Acs)
			}
		}
	}
	// pairs: an optional part left out (which switches a check off) together with a perturbation of *another* field —
	// leaving out the Response Issuer, the audience restriction or the assertion Issuer must not take any other check with it
	for _, f1 := range fields {
		if f1.absent == nil {
			continue
		}
		for _, f2 := range fields {
			if f2.name == f1.name {
				continue
			}
			for i := range nmName {
				for _, signed := range []string{"none", "idp"} {
					cfg := baseCfg()
					r := baseResp(cfg, now)
					r.Sig = signed
					f1.absent(cfg, &r, "")
					f2.apply(cfg, &r, nearMiss(f2.expect(cfg))[i])
					c.count("c03-pair", f1.name+":absent x "+f2.name)
					run(cfg, r, cfg.Acs)
				}
			}
		}
	}
	// the optional attributes of an Issuer element (Format, qualifiers) say nothing about who issued the message: every
	// Format with a correct, a wrong and a near-miss value, on the Response, on the Assertion
	for _, format := range []string{"urn:oasis:names:tc:SAML:2.0:nameid-format:entity", "urn:oasis:names:tc:SAML:1.1:nameid-format:unspecified", "urn:oasis:names:tc:SAML:2.0:nameid-format:persistent", "urn:example:custom-format"} {
		for _, where := range []string{"response", "assertion"} {
			for _, i := range []int{0, 1, 5} {
				for _, signed := range []string{"none", "idp"} {
					cfg := baseCfg()
					r := baseResp(cfg, now)
					r.Sig = signed
					v := nearMiss(cfg.IDPEntity)[i]
					if where == "response" {
						r.Issuer, r.IssuerFormat = sp(v), format
					} else {
						r.Entries[0].Issuer, r.Entries[0].IssuerFormat = sp(v), format
					}
					c.count("c03-issuer-format", where+":"+nmName[i])
					run(cfg, r, cfg.Acs)
				}
			}
		}
	}
	// destination = received-at URL but not the ACS URL
	variants(func(cfg SPCfg, r *Resp) {
		r.Dest = "https://sp.example.com/saml/acs?session=1"
		c.count("c03-single", "destination:current-url")
	})
	// the received-at URL as a server sees it (request URI only): a Destination on another host with the same path is still foreign
	for _, dst := range []string{"https://evil.example.org/saml/acs", "https://sp.example.com.evil.org/saml/acs", "/saml/acs", "https://sp.example.com/saml/acs", "https://evil.example.org/"} {
		for _, rel := range []string{"/saml/acs", "", "/", "/saml/acs?session=1"} {
			for _, signed := range []string{"none", "idp"} {
				cfg := baseCfg()
				r := baseResp(cfg, now)
				r.Sig = signed
				r.Dest = dst
				c.count("c03-single", "destination:relative-received-at")
				run(cfg, r, rel)
			}
		}
	}
	// several audiences
	for n := 0; n <= 3; n++ {
		for hit := -1; hit < n; hit++ {
			n, hit := n, hit
			variants(func(cfg SPCfg, r *Resp) {
				auds := []string{}
				for i := 0; i < n; i++ {
					if i == hit {
						auds = append(auds, firstSetStr(cfg.EntityID, cfg.MetadataURL))
					} else {
						auds = append(auds, nearMiss(firstSetStr(cfg.EntityID, cfg.MetadataURL))[1+c.rng.Intn(6)])
					}
				}
				r.Entries[0].Cond.Auds = auds
				c.count("c03-audiences", fmt.Sprintf("n=%d hit=%d", n, hit))
			})
		}
	}
	// the SP's *other* identifier: with an entity ID configured, the metadata URL is not an audience (and vice versa);
	// alone, first, last, and next to a near miss
	for _, shape := range []int{0, 1, 2, 3} {
		shape := shape
		variants(func(cfg SPCfg, r *Resp) {
			other := cfg.MetadataURL
			if cfg.EntityID == "" {
				other = spEntity
			}
			miss := nearMiss(firstSetStr(cfg.EntityID, cfg.MetadataURL))[1+c.rng.Intn(6)]
			switch shape {
			case 0:
				r.Entries[0].Cond.Auds = []string{other}
			case 1:
				r.Entries[0].Cond.Auds = []string{other, miss}
			case 2:
				r.Entries[0].Cond.Auds = []string{miss, other}
			default:
				r.Entries[0].Cond.Auds = []string{idpEntity, other, cfg.Acs}
			}
			c.count("c03-audiences", fmt.Sprintf("other-identifier shape=%d", shape))
		})
	}
	// nested status codes must not matter; the status is the top-level value
	for _, ns := range []struct {
		top  string
		nest []string
	}{{"urn:oasis:names:tc:SAML:2.0:status:Responder", []string{successSt}}, {"urn:oasis:names:tc:SAML:2.0:status:Requester", []string{"urn:oasis:names:tc:SAML:2.0:status:AuthnFailed", successSt}},
		{successSt, []string{"urn:oasis:names:tc:SAML:2.0:status:Responder"}}, {"", []string{successSt}}} {
		ns := ns
		variants(func(cfg SPCfg, r *Resp) {
			r.Status, r.StatusNested = ns.top, ns.nest
			c.count("c03-single", "status:nested")
		})
	}
	// pairwise perturbations, sampled
	n := 300
	if !c.quick() {
		n = 8000
	}
	for i := 0; i < n; i++ {
		cfg := baseCfg()
		if c.chance(0.5) {
			cfg.EntityID = ""
		}
		cfg.AudV = c.pick("n", "n", "n", "t", "f")
		r := baseResp(cfg, now)
		r.Sig = c.pick("none", "idp", "attacker")
		k := 2 + c.rng.Intn(2)
		for j := 0; j < k; j++ {
			f := fields[c.rng.Intn(len(fields))]
			f.apply(cfg, &r, nearMiss(f.expect(cfg))[c.rng.Intn(8)])
		}
		if c.chance(0.3) {
			// a second assertion that is fine
			r.Entries = append(r.Entries, baseAssn(cfg, now, "bob"))
		}
		u := cfg.Acs
		if c.chance(0.4) {
			u = "https://sp.example.com/saml/acs?session=1"
		}
		c.count("c03-pairs", fmt.Sprint(k))
		run(cfg, r, u)
	}
}

// round tripper answering ArtifactResolve with an envelope built per case
type artifactRT struct {
	mk     func(resolveID string) (int, []byte, error)
	lastID string
	// the body reads to its end and then fails to close (a connection reset after the last byte): the reply was complete
	closeErr bool
}

// artifactCloseFail: every resolver reply of the following cases fails to close
var artifactCloseFail bool

type closeFailBody struct{ io.Reader }

func (closeFailBody) Close() error { return errors.New("close: connection reset by peer") }

func (rt *artifactRT) RoundTrip(req *http.Request) (*http.Response, error) {
	body, _ := io.ReadAll(req.Body)
	doc := etree.NewDocument()
	id := ""
	if err := doc.ReadFromBytes(body); err == nil && doc.Root() != nil {
		if ar := doc.Root().FindElement("//ArtifactResolve"); ar != nil {
			id = ar.SelectAttrValue("ID", "")
		}
	}
	rt.lastID = id
	status, out, err := rt.mk(id)
	if err != nil {
		return nil, err
	}
	var rc io.ReadCloser = io.NopCloser(bytes.NewReader(out))
	if rt.closeErr {
		rc = closeFailBody{bytes.NewReader(out)}
	}
	return &http.Response{StatusCode: status, Status: fmt.Sprintf("%d X", status), Body: rc, Header: http.Header{}, Request: req}, nil
}

type artCase struct {
	cfg       SPCfg
	now       int64
	ids       []string
	irtMode   string // match | other | empty | prefix
	ii        int64
	issuer    *string
	status    string
	sig       string
	resp      *Resp // nil: no Response child
	respCount int
}

func (c *Ctx) soapEnvelope(k artCase, resolveID string, lex int) ([]byte, string) {
	irt := resolveID
	switch k.irtMode {
	case "other":
		irt = "id-something-else"
	case "empty":
		irt = ""
	case "prefix":
		if len(resolveID) > 1 {
			irt = resolveID[:len(resolveID)-1]
		}
	case "extension":
		irt = resolveID + "0"
	}
	b := &builder{c: c, lexStyle: lex, spCert: c.key("sp").Cert, badCert: c.key("sp2").Cert}
	ar := saml.ArtifactResponse{ID: fmt.Sprintf("id-ar%d", c.n), InResponseTo: irt, Version: "2.0",
		Status: saml.Status{StatusCode: saml.StatusCode{Value: k.status}}}
	if k.issuer != nil {
		ar.Issuer = &saml.Issuer{Value: *k.issuer}
	}
	el := etree.NewElement("samlp:ArtifactResponse")
	el.CreateAttr("xmlns:saml", "urn:oasis:names:tc:SAML:2.0:assertion")
	el.CreateAttr("xmlns:samlp", "urn:oasis:names:tc:SAML:2.0:protocol")
	el.CreateAttr("xmlns:xs", "http://www.w3.org/2001/XMLSchema")
	el.CreateAttr("ID", ar.ID)
	if irt != "" {
		el.CreateAttr("InResponseTo", irt)
	}
	el.CreateAttr("Version", "2.0")
	el.CreateAttr("IssueInstant", lexTime(k.ii, lex))
	if ar.Issuer != nil {
		el.AddChild(ar.Issuer.Element())
	}
	el.AddChild(ar.Status.Element())
	for i := 0; i < k.respCount; i++ {
		el.AddChild(b.responseEl(*k.resp))
	}
	if k.sig != "none" {
		signed, err := b.signCtx(k.sig, "").SignEnveloped(el)
		must(err)
		el = signed
	}
	env := etree.NewElement("soap-env:Envelope")
	env.CreateAttr("xmlns:soap-env", "http://schemas.xmlsoap.org/soap/envelope/")
	body := env.CreateElement("soap-env:Body")
	body.AddChild(el)
	return elBytes(env), irt
}

func (c *Ctx) runArtifact(k artCase, viaHTTP bool) {
	setGlobals(k.cfg, k.now)
	s := c.realSP(k.cfg)
	s.IDPMetadata.IDPSSODescriptors[0].ArtifactResolutionServices = []saml.Endpoint{{Binding: saml.SOAPBinding, Location: "https://idp.example.com/saml/artifact"}}
	lex := c.rng.Intn(6)
	var resolveID, irt string
	impl := safely(func() string {
		if viaHTTP {
			rt := &artifactRT{closeErr: artifactCloseFail || c.n%3 == 0, mk: func(id string) (int, []byte, error) {
				b, i := c.soapEnvelope(k, id, lex)
				irt = i
				return 200, b, nil
			}}
			c.count("artifact-body-close", map[bool]string{true: "fails", false: "ok"}[rt.closeErr])
			s.HTTPClient = &http.Client{Transport: rt}
			req, _ := http.NewRequest("POST", k.cfg.Acs, nil)
			req.Form = url.Values{"SAMLart": {"AAQAAMFbLinlXaCM+FIxiDwGOLAy2T71gbpO7ZhNzAgEANlB90ECfpNEVLg="}}
			req.PostForm = req.Form
			res := canonParse(s.ParseResponse(req, k.ids))
			resolveID = rt.lastID
			return res
		}
		resolveID = fmt.Sprintf("id-resolve%d", c.n)
		b, i := c.soapEnvelope(k, resolveID, lex)
		irt = i
		return canonParse(s.ParseXMLArtifactResponse(b, k.ids, resolveID, mustURL(k.cfg.Acs)))
	})
	// the URL handed to parseResponse is the artifact endpoint when going through HTTP
	urlStr := k.cfg.Acs
	if viaHTTP {
		urlStr = "https://idp.example.com/saml/artifact"
	}
	// direct oracle
	spec := "err"
	asig := sigState(k.sig, k.cfg)
	if irt == resolveID && k.now <= k.ii+k.cfg.Delay && (k.issuer == nil || *k.issuer == k.cfg.IDPEntity) {
		if k.status != k.cfg.Success {
			spec = "errstatus " + encStr(k.status)
		} else if asig != "i" && k.respCount == 1 {
			spec = specParse(k.cfg, k.now, k.ids, urlStr, asig != "v", *k.resp)
		}
	}
	toks := joinToks(k.cfg.toks(), []string{encInt(k.now)}, encStrList(k.ids), []string{encStr(resolveID), encStr(urlStr), encStr(irt), encInt(k.ii)},
		encOptStr(k.issuer), []string{encStr(k.status), asig})
	if k.respCount == 1 {
		toks = joinToks(toks, []string{"+", sigState(k.resp.Sig, k.cfg)}, k.resp.toks(k.cfg))
	} else {
		toks = append(toks, "-")
	}
	c.count("artifact-entry", map[bool]string{true: "ParseResponse+SAMLart", false: "ParseXMLArtifactResponse"}[viaHTTP])
	c.emit("artifact", toks, impl, oracleCmp(spec, impl))
}

// middlewareOutstanding: which request IDs the real samlsp.Middleware treats as outstanding (C04_middleware_ids): flows are started,
// then responses with a matching, a foreign and an *absent* InResponseTo are delivered with the browser's tracking cookies.
func (c *Ctx) middlewareOutstanding() {
	for h := 0; h < 6; h++ {
		w := c.newWorld("https://sp.example.com", map[bool]string{true: saml.HTTPPostBinding, false: ""}[h%2 == 1])
		nf := 1 + h%3
		for k := 0; k < nf; k++ {
			w.startFlow(fmt.Sprintf("/app/page%d", k))
			w.now = w.now.Add(2 * time.Second)
		}
		for _, f := range w.flows {
			w.deliver("", true, copyJar(w.jar), f.index, "unsolicited-no-inresponseto")
			w.deliver("id-foreign", true, copyJar(w.jar), f.index, "foreign-inresponseto")
			w.deliver(f.id+"x", true, copyJar(w.jar), f.index, "extension-of-outstanding-id")
			w.deliver(f.id, true, map[string]string{}, f.index, "no-cookies")
		}
		// a session token of this SP (same key, audience and issuer as a tracking token, but no request ID) presented as a
		// tracking cookie: it names no outstanding request, so an unsolicited response stays unsolicited
		sess := c.sign("RS256", jwtClaims{Aud: w.root, Iss: w.root, Sub: "sessidx", Exp: w.now.Add(time.Minute).Unix(), Iat: w.now.Unix(), Nbf: w.now.Unix(), SamlSession: true}, "sp")
		w.abs[sess.raw] = sess
		w.deliver("", true, map[string]string{"saml_sessidx": sess.raw}, "sessidx", "session-token-as-tracker-unsolicited")
		w.deliver("", true, map[string]string{"saml_sessidx": sess.raw}, "", "session-token-as-tracker-unsolicited-no-relay")
		for _, f := range w.flows {
			w.deliver(f.id, true, copyJar(w.jar), f.index, "faithful")
		}
	}
	c.optionsDoNotAllowUnsolicited()
}

// optionsDoNotAllowUnsolicited (C04, C17)
func (c *Ctx) optionsDoNotAllowUnsolicited() {
	// options that say nothing about IdP-initiated login must not switch it on: with each of them set (and AllowIDPInitiated
	// left unset) an unsolicited response, and a response to a request this browser does not track, are refused
	hooks := map[string]func(o *samlsp.Options){
		"DefaultRedirectURI": func(o *samlsp.Options) { o.DefaultRedirectURI = "/home" },
		"SignRequest":        func(o *samlsp.Options) { o.SignRequest = true },
		"ForceAuthn":         func(o *samlsp.Options) { o.ForceAuthn = true },
		"EntityID":           func(o *samlsp.Options) { o.EntityID = "urn:example:sp" },
		"CookieSameSite":     func(o *samlsp.Options) { o.CookieSameSite = http.SameSiteLaxMode },
		"RelayStateFunc":     func(o *samlsp.Options) { o.RelayStateFunc = func(http.ResponseWriter, *http.Request) string { return "" } },
	}
	var hn []string
	for n := range hooks {
		hn = append(hn, n)
	}
	sort.Strings(hn)
	for _, n := range hn {
		mwOptsHook = hooks[n]
		w := c.newWorld("https://sp.example.com", "")
		mwOptsHook = nil
		orc := ""
		if w.mw.ServiceProvider.AllowIDPInitiated {
			orc = "key=option-enables-idp-initiated:" + n + " samlsp.New with " + n + " set and AllowIDPInitiated unset returns a service provider that allows IdP-initiated login"
		}
		c.count("c04-option-does-not-allow-unsolicited", n)
		c.emitOneWay("mwoption", []string{encStr(n)}, fmt.Sprint(w.mw.ServiceProvider.AllowIDPInitiated), orc)
		if n == "EntityID" || n == "RelayStateFunc" {
			continue // (these change what a valid response / a tracked flow looks like: the flag is what is checked)
		}
		w.deliver("", true, map[string]string{}, "", "unsolicited-no-cookies:"+n)
		w.deliver("id-foreign", true, map[string]string{}, "", "foreign-no-cookies:"+n)
	}
}

func (c *Ctx) genC04() {
	defer c.middlewareOutstanding()
	now := ms(baseTime)
	idSets := [][]string{{}, {"id-req1"}, {"id-other", "id-req1", "id-third"}, {""}, {"", "id-req1"}, {"id-req", "id-req10", "ID-REQ1"}, {"id-other"}}
	irts := []string{"id-req1", "id-nope", "", "id-req", "id-req10"}
	for si, ids := range idSets {
		for _, rirt := range irts {
			for _, scirt := range irts {
				for _, allow := range []bool{false, true} {
					for _, reqv := range []string{"n", "t", "f"} {
						if reqv != "n" && c.quick() && c.chance(0.5) {
							continue
						}
						for _, entry := range []string{"xml", "post"} {
							cfg := baseCfg()
							cfg.AllowIDP = allow
							cfg.ReqV = reqv
							// the other hook of the SP (a custom audience validator, accepting or refusing) has no say in which
							// request a response answers
							cfg.AudV = []string{"n", "t", "n", "f", "t"}[(si+len(rirt)+len(scirt))%5]
							c.count("c04-audience-hook", cfg.AudV)
							r := baseResp(cfg, now)
							r.IRT = rirt
							(*r.Entries[0].Subject)[0].Data.IRT = scirt
							// a second confirmation that matches, so the failing one is at position 0
							if c.chance(0.3) {
								*r.Entries[0].Subject = append(*r.Entries[0].Subject, SConf{Data: &SCd{IRT: "id-req1", Recipient: cfg.Acs, NOA: now + 60000}})
							}
							c.count("c04-idset", fmt.Sprint(si))
							c.runSP(spCase{cfg: cfg, now: now, ids: ids, url: cfg.Acs, r: r, lex: 0, entry: entry})
						}
					}
				}
			}
		}
	}
	// confirmations at positions 0..2
	for pos := 0; pos < 3; pos++ {
		for _, scirt := range irts {
			cfg := baseCfg()
			r := baseResp(cfg, now)
			scs := []SConf{}
			for q := 0; q < 3; q++ {
				v := "id-req1"
				if q == pos {
					v = scirt
				}
				scs = append(scs, SConf{Data: &SCd{IRT: v, Recipient: cfg.Acs, NOA: now + 60000}})
			}
			r.Entries[0].Subject = &scs
			c.runSP(spCase{cfg: cfg, now: now, ids: []string{"id-req1"}, url: cfg.Acs, r: r, lex: 0, entry: "xml"})
		}
	}
	// artifact entry points
	for _, viaHTTP := range []bool{false, true} {
		for _, mode := range []string{"match", "other", "empty", "prefix", "extension"} {
			for _, asig := range []string{"none", "idp", "attacker"} {
				for ii, ids := range [][]string{{"id-req1"}, {}, {"id-other"}} {
					for ri, rirt := range []string{"id-req1", "id-nope", ""} {
						cfg := baseCfg()
						// the SP's switches (IdP-initiated login allowed, custom request-ID validator) concern the browser's requests:
						// the back-channel answer must match the ArtifactResolve just issued whatever they say
						switch (ii + ri) % 3 {
						case 1:
							cfg.AllowIDP = true
						case 2:
							cfg.ReqV = "t"
						}
						c.count("c04-artifact-sp-switches", fmt.Sprintf("allowIdP=%v reqV=%s", cfg.AllowIDP, cfg.ReqV))
						r := baseResp(cfg, now)
						r.IRT = rirt
						r.Dest = c.pick(cfg.Acs, "", "https://idp.example.com/saml/artifact")
						if c.chance(0.3) {
							r.Sig = "idp"
						}
						if c.chance(0.3) {
							r.Entries[0].Sig = "none"
						}
						k := artCase{cfg: cfg, now: now, ids: ids, irtMode: mode, ii: now - 500, issuer: sp(cfg.IDPEntity), status: cfg.Success,
							sig: asig, resp: &r, respCount: 1}
						if c.chance(0.1) {
							k.issuer = nil
						}
						if c.chance(0.08) {
							k.issuer = sp("https://evil.example.org/x")
						}
						if c.chance(0.08) {
							k.status = "urn:oasis:names:tc:SAML:2.0:status:Responder"
						}
						if c.chance(0.08) {
							k.ii = now - cfg.Delay - 1
						}
						if c.chance(0.05) {
							k.respCount = c.pick2(0, 2)
						}
						c.runArtifact(k, viaHTTP)
					}
				}
			}
		}
	}
}

func (c *Ctx) pick2(a, b int) int {
	if c.chance(0.5) {
		return a
	}
	return b
}

// concurrentParses: one ServiceProvider value used from several goroutines at once, as a server does. Genuine messages
// (IdP-signed assertion for user NN) and forgeries made from them by same-length edits (as a whole Response, and as a bare
// Assertion document) are first judged one at a time; then eight goroutines parse them in random order and every verdict
// must be the one-at-a-time verdict. A forged identity that comes back accepted is a signature-wrapping success by other means.
func (c *Ctx) concurrentParses(rounds int) {
	now := ms(baseTime)
	cfg := baseCfg()
	setGlobals(cfg, now)
	b := &builder{c: c, spCert: c.key("sp").Cert, badCert: c.key("sp2").Cert}
	type msg struct {
		kind string
		xml  []byte
		want string
	}
	var msgs []msg
	for i := 0; i < 6; i++ {
		r := baseResp(cfg, now)
		r.Entries[0].Ident = fmt.Sprintf("user%02d", i)
		if i%2 == 1 {
			r.Sig, r.Entries[0].Sig = "idp", "none"
		}
		el := b.responseEl(r)
		genuine := elBytes(el)
		msgs = append(msgs, msg{kind: "genuine", xml: genuine})
		forged := bytes.ReplaceAll(genuine, []byte(fmt.Sprintf("user%02d", i)), []byte(fmt.Sprintf("evil%02d", i)))
		msgs = append(msgs, msg{kind: "forged-response", xml: forged})
		if a := el.FindElement("./Assertion"); a != nil {
			bare := a.Copy()
			bare.CreateAttr("xmlns:saml", "urn:oasis:names:tc:SAML:2.0:assertion")
			bare.CreateAttr("xmlns:samlp", "urn:oasis:names:tc:SAML:2.0:protocol")
			msgs = append(msgs, msg{kind: "forged-bare-assertion", xml: bytes.ReplaceAll(elBytes(bare), []byte(fmt.Sprintf("user%02d", i)), []byte(fmt.Sprintf("evil%02d", i)))})
		}
	}
	s := c.realSP(cfg)
	parse := func(m msg) string {
		return safely(func() string { return canonParse(s.ParseXMLResponse(m.xml, []string{"id-req1"}, mustURL(cfg.Acs))) })
	}
	why := ""
	for i := range msgs {
		msgs[i].want = parse(msgs[i])
		ok := strings.HasPrefix(msgs[i].want, "ok ")
		if (msgs[i].kind == "genuine") != ok && why == "" {
			why = fmt.Sprintf("key=c01-concurrent:baseline a %s message is judged %s one at a time", msgs[i].kind, msgs[i].want)
		}
	}
	var mu sync.Mutex
	var wg sync.WaitGroup
	total := 0
	for g := 0; g < 8; g++ {
		wg.Add(1)
		seed := c.rng.Int63()
		go func() {
			defer wg.Done()
			rng := newRand(seed)
			for k := 0; k < rounds; k++ {
				m := msgs[rng.Intn(len(msgs))]
				got := parse(m)
				mu.Lock()
				total++
				if got != m.want && why == "" {
					tag := "divergence"
					if strings.HasPrefix(got, "ok ") && strings.Contains(got, "evil") {
						tag = "forged-identity-accepted"
					}
					why = fmt.Sprintf("key=c01-concurrent:%s a %s message judged %q one at a time was judged %q while other messages were being parsed concurrently on the same ServiceProvider", tag, m.kind, m.want, got)
				}
				mu.Unlock()
			}
		}()
	}
	wg.Wait()
	c.count("c01-concurrent-parses", fmt.Sprint(total))
	c.emitOneWay("concurrent", []string{fmt.Sprint(len(msgs))}, "done", why)
}
