package main

// C01: signature wrapping and friends.  A case is a construction script: honest parts are built and
// signed with real keys (every signing event goes into a ledger), then attacker operations rearrange
// the tree.  The final bytes go to the real ParseXMLResponse; the final tree, the ledger, the struct
// views (what the library's own unmarshalling makes of the candidate elements and of every
// ds:Signature) and the decryptions go to the model.

import (
	"bytes"
	"crypto/sha256"
	"crypto/sha512"
	"encoding/base64"
	"fmt"
	"net/http"
	"net/url"
	"regexp"
	"strings"
	"time"

	"github.com/beevik/etree"
	"github.com/crewjam/saml"
	"github.com/crewjam/saml/xmlenc"
	xrv "github.com/mattermost/xml-roundtrip-validator"
	dsig "github.com/russellhaering/goxmldsig"
	"github.com/russellhaering/goxmldsig/etreeutils"
	"github.com/russellhaering/goxmldsig/types"
)

func init() { gens["C01"] = (*Ctx).genC01 }

const (
	nsSAML  = "urn:oasis:names:tc:SAML:2.0:assertion"
	nsSAMLP = "urn:oasis:names:tc:SAML:2.0:protocol"
	nsDSIG  = "http://www.w3.org/2000/09/xmldsig#"
)

// ---------- ledger ----------

type sigEvent struct {
	tok, key string
	ctx      [][2]string
	si       *etree.Element
}

type digEvent struct {
	tok     string
	ctx     [][2]string
	content *etree.Element
}

type xswScript struct {
	c          *Ctx
	sigs       []sigEvent
	digs       []digEvent
	blobTok    map[string]string // base64 text (white space removed) ↦ token
	certTok    map[string]string
	trusted    map[string]bool // identities signed (directly or inside a signed Response) by a trusted key
	ops        []string
	bobSpliced bool
	cfg        SPCfg
	now        int64
}

var wsRe = regexp.MustCompile(`\s+`)

func (s *xswScript) tokenFor(kind, raw string) string {
	k := wsRe.ReplaceAllString(raw, "")
	if t, ok := s.blobTok[k]; ok {
		return t
	}
	t := fmt.Sprintf("§%s%d", kind, len(s.blobTok))
	s.blobTok[k] = t
	return t
}

// in-scope bindings declared on the ancestors of el (nearest last)
func ancestorBindings(el *etree.Element) [][2]string {
	var chain []*etree.Element
	for p := el.Parent(); p != nil && p.Tag != ""; p = p.Parent() {
		chain = append([]*etree.Element{p}, chain...)
	}
	var out [][2]string
	for _, p := range chain {
		for _, a := range p.Attr {
			if a.Space == "xmlns" {
				out = append([][2]string{{a.Key, a.Value}}, out...)
			} else if a.Space == "" && a.Key == "xmlns" {
				out = append([][2]string{{"", a.Value}}, out...)
			}
		}
	}
	return out
}

// sign el (standalone) with the named key; the signing event is recorded
func (s *xswScript) sign(el *etree.Element, keyName string) *etree.Element {
	b := &builder{c: s.c}
	content := el.Copy()
	signed, err := b.signCtx(keyName, "").SignEnveloped(el)
	must(err)
	sig := signed.ChildElements()[len(signed.ChildElements())-1]
	si := sig.SelectElement("SignedInfo")
	sv := sig.SelectElement("SignatureValue").Text()
	dv := si.FindElement("./Reference/DigestValue").Text()
	signed = signed.Copy()
	sig = signed.ChildElements()[len(signed.ChildElements())-1]
	si = sig.SelectElement("SignedInfo")
	s.sigs = append(s.sigs, sigEvent{tok: s.tokenFor("S", sv), key: keyName, ctx: ancestorBindings(si), si: si.Copy()})
	s.digs = append(s.digs, digEvent{tok: s.tokenFor("D", dv), ctx: nil, content: content})
	return signed.Copy() // SignEnveloped appends the Signature without re-parenting it
}

// ---------- dump ----------

type dumper struct {
	s    *xswScript
	next int
	nid  map[*etree.Element]int
}

// text replaces a known certificate's base64 by a short token, keeping any surrounding white space (white space is
// significant for digests; the certificate readers strip it)
func (d *dumper) text(raw string) string {
	k := strings.TrimSpace(raw)
	if t, ok := d.s.certTok[k]; ok && k != "" {
		i := strings.Index(raw, k)
		return raw[:i] + t + raw[i+len(k):]
	}
	return raw
}

func (d *dumper) node(t etree.Token) []string {
	switch x := t.(type) {
	case *etree.Element:
		d.next++
		id := d.next
		if d.nid != nil {
			d.nid[x] = id
		}
		out := []string{"e", fmt.Sprint(id), encStr(x.Space), encStr(x.Tag), fmt.Sprint(len(x.Attr))}
		for _, a := range x.Attr {
			out = append(out, encStr(a.Space), encStr(a.Key), encStr(a.Value))
		}
		out = append(out, fmt.Sprint(len(x.Child)))
		for _, ch := range x.Child {
			out = append(out, d.node(ch)...)
		}
		return out
	case *etree.CharData:
		return []string{"t", encBool(x.IsCData()), encStr(d.text(x.Data))}
	case *etree.Comment:
		return []string{"o", encStr("comment"), encStr(x.Data)}
	case *etree.ProcInst:
		return []string{"o", encStr("procinst"), encStr(x.Target + " " + x.Inst)}
	case *etree.Directive:
		return []string{"o", encStr("directive"), encStr(x.Data)}
	}
	return []string{"o", encStr("unknown"), encStr("")}
}

func ctxToks(ctx [][2]string) []string {
	out := []string{fmt.Sprint(len(ctx))}
	for _, b := range ctx {
		out = append(out, encStr(b[0]), encStr(b[1]))
	}
	return out
}

func (s *xswScript) ledgerToks() []string {
	out := []string{fmt.Sprint(len(s.sigs))}
	for _, e := range s.sigs {
		d := &dumper{s: s}
		out = append(out, encStr(e.tok), encStr(s.certName(e.key)))
		out = append(out, ctxToks(e.ctx)...)
		out = append(out, d.node(e.si)...)
	}
	out = append(out, fmt.Sprint(len(s.digs)))
	for _, e := range s.digs {
		d := &dumper{s: s}
		out = append(out, encStr(e.tok))
		out = append(out, ctxToks(e.ctx)...)
		out = append(out, d.node(e.content)...)
	}
	return out
}

func (s *xswScript) certName(key string) string { return "§K:" + key }

// own namespace resolution (scoping rules of Namespaces in XML), independent of etreeutils
func resolveNS(el *etree.Element) (string, bool) {
	for p := el; p != nil && p.Tag != ""; p = p.Parent() {
		for i := len(p.Attr) - 1; i >= 0; i-- {
			a := p.Attr[i]
			if el.Space != "" && a.Space == "xmlns" && a.Key == el.Space {
				return a.Value, true
			}
			if el.Space == "" && a.Space == "" && a.Key == "xmlns" {
				return a.Value, true
			}
		}
	}
	if el.Space == "xml" {
		return "http://www.w3.org/XML/1998/namespace", true
	}
	if el.Space == "" {
		return "http://www.w3.org/XML/1998/namespace", true // etreeutils' default context
	}
	return "", false
}

func allElems(el *etree.Element) []*etree.Element {
	out := []*etree.Element{el}
	for _, c := range el.ChildElements() {
		out = append(out, allElems(c)...)
	}
	return out
}

func (s *xswScript) sigViewToks(el *etree.Element) []string {
	ctx, err := etreeutils.NSBuildParentContext(el)
	if err != nil {
		return []string{"-"}
	}
	var sg types.Signature
	ok := true
	func() {
		defer func() {
			if recover() != nil {
				ok = false
			}
		}()
		if err := etreeutils.NSUnmarshalElement(ctx, el, &sg); err != nil {
			ok = false
		}
	}()
	if !ok || sg.SignedInfo == nil {
		return []string{"-"}
	}
	out := []string{"+", encStr(sg.SignedInfo.CanonicalizationMethod.Algorithm), fmt.Sprint(len(sg.SignedInfo.References))}
	for _, r := range sg.SignedInfo.References {
		out = append(out, encStr(r.URI), fmt.Sprint(len(r.Transforms.Transforms)))
		for _, t := range r.Transforms.Transforms {
			out = append(out, encStr(t.Algorithm))
		}
		out = append(out, encStr(s.blobLookup("D", r.DigestValue)))
	}
	if sg.SignatureValue == nil {
		out = append(out, "-")
	} else {
		out = append(out, "+", encStr(s.blobLookup("S", sg.SignatureValue.Data)))
	}
	if sg.KeyInfo == nil {
		out = append(out, "-")
	} else {
		out = append(out, "+", fmt.Sprint(len(sg.KeyInfo.X509Data.X509Certificates)))
		for _, c := range sg.KeyInfo.X509Data.X509Certificates {
			k := wsRe.ReplaceAllString(c.Data, "")
			if c.Data == "" {
				out = append(out, encStr(""))
			} else if t, ok := s.certTok[k]; ok {
				out = append(out, encStr(t))
			} else {
				out = append(out, encStr("!bad"))
			}
		}
	}
	return out
}

// blobLookup maps a digest / signature value to its token; a value nobody produced gets a fresh one.
// Values that do not decode as base64 can never match: they get a token of their own as well.
func (s *xswScript) blobLookup(kind, raw string) string {
	k := wsRe.ReplaceAllString(raw, "")
	if t, ok := s.blobTok[k]; ok {
		// goxmldsig decodes with StdEncoding, which tolerates only CR and LF inside the value
		if _, err := base64.StdEncoding.DecodeString(raw); err != nil {
			return "?undecodable"
		}
		return t
	}
	return "?" + kind + ":" + k
}

func assertionViewToks(a *saml.Assertion) []string {
	t := []string{encInt(ms(a.IssueInstant)), encStr(a.Issuer.Value)}
	if a.Subject == nil {
		t = append(t, "-")
	} else {
		t = append(t, "+", fmt.Sprint(len(a.Subject.SubjectConfirmations)))
		for _, sc := range a.Subject.SubjectConfirmations {
			if sc.SubjectConfirmationData == nil {
				t = append(t, "-")
			} else {
				d := sc.SubjectConfirmationData
				t = append(t, "+", encStr(d.InResponseTo), encStr(d.Recipient), encInt(ms(d.NotOnOrAfter)))
			}
		}
	}
	if a.Conditions == nil {
		t = append(t, "-")
	} else {
		t = append(t, "+", encInt(ms(a.Conditions.NotBefore)), encInt(ms(a.Conditions.NotOnOrAfter)), fmt.Sprint(len(a.Conditions.AudienceRestrictions)))
		for _, ar := range a.Conditions.AudienceRestrictions {
			t = append(t, encStr(ar.Audience.Value))
		}
	}
	return append(t, encStr(identFull(a)))
}

func identFull(a *saml.Assertion) string {
	nid := ""
	if a.Subject != nil && a.Subject.NameID != nil {
		nid = a.Subject.NameID.Value
	}
	return nid + "|" + identOf(a)
}

// ---------- parts ----------

func (s *xswScript) assertion(ident, id string) *etree.Element {
	cfg := s.cfg
	a := saml.Assertion{ID: id, IssueInstant: time.UnixMilli(s.now - 1000).UTC(), Version: "2.0", Issuer: saml.Issuer{Value: cfg.IDPEntity},
		Subject: &saml.Subject{NameID: &saml.NameID{Value: ident}, SubjectConfirmations: []saml.SubjectConfirmation{{Method: "urn:oasis:names:tc:SAML:2.0:cm:bearer",
			SubjectConfirmationData: &saml.SubjectConfirmationData{InResponseTo: "id-req1", Recipient: cfg.Acs, NotOnOrAfter: time.UnixMilli(s.now + 60000).UTC()}}}},
		Conditions: &saml.Conditions{NotBefore: time.UnixMilli(s.now - 5000).UTC(), NotOnOrAfter: time.UnixMilli(s.now + 60000).UTC(),
			AudienceRestrictions: []saml.AudienceRestriction{{Audience: saml.Audience{Value: firstSetStr(cfg.EntityID, cfg.MetadataURL)}}}},
		AttributeStatements: []saml.AttributeStatement{{Attributes: []saml.Attribute{{Name: "ident", Values: []saml.AttributeValue{{Type: "xs:string", Value: ident}}}}}},
	}
	return a.Element()
}

func (s *xswScript) response(id string) *etree.Element {
	cfg := s.cfg
	r := saml.Response{ID: id, InResponseTo: "id-req1", Version: "2.0", IssueInstant: time.UnixMilli(s.now - 500).UTC(), Destination: cfg.Acs,
		Issuer: &saml.Issuer{Value: cfg.IDPEntity}, Status: saml.Status{StatusCode: saml.StatusCode{Value: cfg.Success}}}
	return r.Element()
}

func (s *xswScript) encrypt(el *etree.Element, certKey string) *etree.Element {
	doc := etree.NewDocument()
	doc.SetRoot(el.Copy())
	buf, err := doc.WriteToBytes()
	must(err)
	enc := xmlenc.OAEP()
	enc.BlockCipher = xmlenc.AES128CBC
	enc.DigestMethod = &xmlenc.SHA1
	ed, err := enc.Encrypt(s.c.key(certKey).Cert, buf, nil)
	must(err)
	ed.CreateAttr("Type", "http://www.w3.org/2001/04/xmlenc#Element")
	ea := etree.NewElement("saml:EncryptedAssertion")
	ea.CreateAttr("xmlns:saml", nsSAML)
	ea.AddChild(ed)
	return ea
}

// ---------- attacker operations ----------

func findByTag(root *etree.Element, tag string) []*etree.Element {
	var out []*etree.Element
	for _, e := range allElems(root) {
		if e.Tag == tag {
			out = append(out, e)
		}
	}
	return out
}

func insertAt(parent *etree.Element, child etree.Token, pos int) {
	if pos >= len(parent.Child) {
		parent.AddChild(child)
	} else {
		parent.InsertChildAt(pos, child)
	}
}

type attackOp struct {
	name string
	run  func(s *xswScript, root *etree.Element, evil *etree.Element) *etree.Element
}

func firstAssertion(root *etree.Element) *etree.Element {
	for _, c := range root.ChildElements() {
		if c.Tag == "Assertion" {
			return c
		}
	}
	return nil
}

func directSig(el *etree.Element) *etree.Element {
	for _, c := range el.ChildElements() {
		if c.Tag == "Signature" {
			return c
		}
	}
	return nil
}

var attackOps = []attackOp{
	{"evil-sibling-before", func(s *xswScript, root, evil *etree.Element) *etree.Element {
		pos := 0
		if a := firstAssertion(root); a != nil {
			pos = a.Index()
		}
		insertAt(root, evil.Copy(), pos)
		return root
	}},
	{"evil-sibling-after", func(s *xswScript, root, evil *etree.Element) *etree.Element {
		root.AddChild(evil.Copy())
		return root
	}},
	{"evil-replaces-keeps-signature", func(s *xswScript, root, evil *etree.Element) *etree.Element {
		// the evil assertion takes the place of the signed one and carries a copy of its Signature; the original goes into an Object inside that Signature
		a := firstAssertion(root)
		if a == nil {
			return root
		}
		e := evil.Copy()
		if sg := directSig(a); sg != nil {
			sc := sg.Copy()
			obj := sc.CreateElement("ds:Object")
			obj.AddChild(a.Copy())
			insertAt(e, sc, 1)
		}
		if id := a.SelectAttrValue("ID", ""); id != "" && s.c.chance(0.5) {
			e.CreateAttr("ID", id)
		}
		idx := a.Index()
		root.RemoveChild(a)
		insertAt(root, e, idx)
		return root
	}},
	{"original-into-evil-wrapper", func(s *xswScript, root, evil *etree.Element) *etree.Element {
		// XSW with the signed assertion nested inside the evil one
		a := firstAssertion(root)
		if a == nil {
			return root
		}
		e := evil.Copy()
		wrapper := e.CreateElement(s.c.pick("saml:Advice", "saml:Extensions", "Object"))
		idx := a.Index()
		root.RemoveChild(a)
		wrapper.AddChild(a)
		insertAt(root, e, idx)
		return root
	}},
	{"evil-into-original-signature-object", func(s *xswScript, root, evil *etree.Element) *etree.Element {
		for _, sg := range findByTag(root, "Signature") {
			obj := sg.CreateElement("ds:Object")
			obj.AddChild(evil.Copy())
			break
		}
		return root
	}},
	{"wrap-response-in-evil-response", func(s *xswScript, root, evil *etree.Element) *etree.Element {
		outer := s.response("id-outer")
		outer.AddChild(evil.Copy())
		ext := outer.CreateElement("samlp:Extensions")
		ext.AddChild(root)
		return outer
	}},
	{"copy-response-signature-to-outer", func(s *xswScript, root, evil *etree.Element) *etree.Element {
		outer := s.response(root.SelectAttrValue("ID", "id-x"))
		if sg := directSig(root); sg != nil {
			outer.AddChild(sg.Copy())
		}
		outer.AddChild(evil.Copy())
		ext := outer.CreateElement("samlp:Extensions")
		ext.AddChild(root)
		return outer
	}},
	{"strip-assertion-signature", func(s *xswScript, root, evil *etree.Element) *etree.Element {
		if a := firstAssertion(root); a != nil {
			if sg := directSig(a); sg != nil {
				a.RemoveChild(sg)
			}
		}
		return root
	}},
	{"strip-response-signature", func(s *xswScript, root, evil *etree.Element) *etree.Element {
		if sg := directSig(root); sg != nil {
			root.RemoveChild(sg)
		}
		return root
	}},
	{"duplicate-signature-child", func(s *xswScript, root, evil *etree.Element) *etree.Element {
		for _, sg := range findByTag(root, "Signature") {
			p := sg.Parent()
			insertAt(p, sg.Copy(), sg.Index())
			break
		}
		return root
	}},
	{"edit-nameid", func(s *xswScript, root, evil *etree.Element) *etree.Element {
		for _, n := range findByTag(root, "NameID") {
			n.SetText("mallory")
			break
		}
		return root
	}},
	{"comment-in-nameid", func(s *xswScript, root, evil *etree.Element) *etree.Element {
		for _, n := range findByTag(root, "NameID") {
			txt := n.Text()
			for len(n.Child) > 0 {
				n.RemoveChildAt(0)
			}
			h := len(txt) / 2
			n.AddChild(etree.NewText(txt[:h]))
			n.AddChild(etree.NewComment("x"))
			n.AddChild(etree.NewText(txt[h:]))
		}
		return root
	}},
	{"comment-in-attribute-value", func(s *xswScript, root, evil *etree.Element) *etree.Element {
		// comments are not part of the canonical form: the signature still verifies, and the value read must be the whole signed text
		for _, n := range findByTag(root, "AttributeValue") {
			txt := n.Text()
			if len(txt) < 2 || len(n.ChildElements()) > 0 {
				continue
			}
			for len(n.Child) > 0 {
				n.RemoveChildAt(0)
			}
			h := 1 + s.c.rng.Intn(len(txt)-1)
			n.AddChild(etree.NewText(txt[:h]))
			n.AddChild(etree.NewComment(s.c.pick("x", "", " -> ")))
			n.AddChild(etree.NewText(txt[h:]))
		}
		return root
	}},
	{"cdata-in-nameid", func(s *xswScript, root, evil *etree.Element) *etree.Element {
		for _, n := range findByTag(root, "NameID") {
			txt := n.Text()
			for len(n.Child) > 0 {
				n.RemoveChildAt(0)
			}
			n.AddChild(etree.NewCData(txt))
			break
		}
		return root
	}},
	{"reorder-attributes", func(s *xswScript, root, evil *etree.Element) *etree.Element {
		// attribute order is not part of the canonical form
		for _, e := range allElems(root) {
			if len(e.Attr) > 1 && s.c.chance(0.5) {
				for i, j := 0, len(e.Attr)-1; i < j; i, j = i+1, j-1 {
					e.Attr[i], e.Attr[j] = e.Attr[j], e.Attr[i]
				}
			}
		}
		return root
	}},
	{"comments-everywhere", func(s *xswScript, root, evil *etree.Element) *etree.Element {
		for _, e := range allElems(root) {
			if s.c.chance(0.3) {
				insertAt(e, etree.NewComment(s.c.pick("", "x", "y", " Assertion ")), s.c.rng.Intn(len(e.Child)+1))
			}
		}
		return root
	}},
	{"procinst-in-assertion", func(s *xswScript, root, evil *etree.Element) *etree.Element {
		if a := firstAssertion(root); a != nil {
			insertAt(a, etree.NewProcInst("evil", "x"), 1)
		}
		return root
	}},
	{"edit-id", func(s *xswScript, root, evil *etree.Element) *etree.Element {
		els := append(findByTag(root, "Assertion"), root)
		e := els[s.c.rng.Intn(len(els))]
		switch s.c.rng.Intn(3) {
		case 0:
			e.CreateAttr("ID", "id-forged")
		case 1:
			e.RemoveAttr("ID")
		default:
			e.CreateAttr("ID", "")
		}
		return root
	}},
	{"edit-reference-uri", func(s *xswScript, root, evil *etree.Element) *etree.Element {
		for _, r := range findByTag(root, "Reference") {
			r.CreateAttr("URI", s.c.pick("", "#id-forged", "id-no-hash", "#"))
			break
		}
		return root
	}},
	{"keyinfo-remove", func(s *xswScript, root, evil *etree.Element) *etree.Element {
		for _, k := range findByTag(root, "KeyInfo") {
			k.Parent().RemoveChild(k)
			break
		}
		return root
	}},
	{"keyinfo-attacker-cert", func(s *xswScript, root, evil *etree.Element) *etree.Element {
		for _, x := range findByTag(root, "X509Certificate") {
			x.SetText(base64.StdEncoding.EncodeToString(s.c.key(s.c.pick("attacker", "idp2", "sp")).Cert.Raw))
			break
		}
		return root
	}},
	{"keyinfo-second-cert-first", func(s *xswScript, root, evil *etree.Element) *etree.Element {
		for _, x := range findByTag(root, "X509Data") {
			e := etree.NewElement("ds:X509Certificate")
			e.SetText(base64.StdEncoding.EncodeToString(s.c.key("attacker").Cert.Raw))
			insertAt(x, e, 0)
			break
		}
		return root
	}},
	{"keyinfo-append-cert", func(s *xswScript, root, evil *etree.Element) *etree.Element {
		xs := findByTag(root, "X509Data")
		if len(xs) > 0 {
			x := xs[s.c.rng.Intn(len(xs))]
			e := etree.NewElement("ds:X509Certificate")
			e.SetText(base64.StdEncoding.EncodeToString(s.c.key(s.c.pick("idp", "idp", "attacker", "idp2")).Cert.Raw))
			x.AddChild(e)
		}
		return root
	}},
	{"attacker-signed-evil-naming-trusted-cert", func(s *xswScript, root, evil *etree.Element) *etree.Element {
		// signed with the attacker's key; the KeyInfo additionally (second, or in a second X509Data / KeyInfo look-alike) names the trusted certificate
		e := s.sign(evil.Copy(), "attacker")
		if x := e.FindElement("./Signature/KeyInfo/X509Data"); x != nil {
			c := etree.NewElement("ds:X509Certificate")
			c.SetText(base64.StdEncoding.EncodeToString(s.c.key("idp").Cert.Raw))
			if s.c.chance(0.7) {
				x.AddChild(c)
			} else {
				insertAt(x, c, 0)
			}
		}
		if a := firstAssertion(root); a != nil && s.c.chance(0.5) {
			idx := a.Index()
			root.RemoveChild(a)
			insertAt(root, e, idx)
		} else {
			insertAt(root, e, s.c.rng.Intn(len(root.Child)+1))
		}
		return root
	}},
	{"keyinfo-empty-cert-element", func(s *xswScript, root, evil *etree.Element) *etree.Element {
		// an X509Certificate element that is there but empty, or that holds more than character data
		xs := findByTag(root, "X509Certificate")
		if len(xs) > 0 {
			x := xs[s.c.rng.Intn(len(xs))]
			switch s.c.rng.Intn(3) {
			case 0:
				for len(x.Child) > 0 {
					x.RemoveChildAt(0)
				}
			case 1:
				x.AddChild(etree.NewComment("c"))
			default:
				txt := x.Text()
				for len(x.Child) > 0 {
					x.RemoveChildAt(0)
				}
				x.CreateElement("ds:Inner").SetText(txt)
			}
		}
		return root
	}},
	{"keyinfo-keyvalue-only", func(s *xswScript, root, evil *etree.Element) *etree.Element {
		for _, k := range findByTag(root, "KeyInfo") {
			for len(k.Child) > 0 {
				k.RemoveChildAt(0)
			}
			k.CreateElement("ds:KeyValue").CreateElement("ds:RSAKeyValue").SetText("AQAB")
			break
		}
		return root
	}},
	{"evil-signature-with-trusted-cert-first", func(s *xswScript, root, evil *etree.Element) *etree.Element {
		// a foreign-namespace Signature look-alike that names the trusted certificate, placed before the real one
		e := etree.NewElement("evil:Signature")
		e.CreateAttr("xmlns:evil", "urn:evil")
		e.CreateElement("evil:KeyInfo").CreateElement("evil:X509Data").CreateElement("evil:X509Certificate").SetText(base64.StdEncoding.EncodeToString(s.c.key("idp").Cert.Raw))
		target := root
		if a := firstAssertion(root); a != nil && s.c.chance(0.5) {
			target = a
		}
		insertAt(target, e, 0)
		return root
	}},
	{"foreign-namespace-assertion", func(s *xswScript, root, evil *etree.Element) *etree.Element {
		e := evil.Copy()
		e.Space = "evil"
		e.CreateAttr("xmlns:evil", s.c.pick("urn:evil", nsSAMLP, "urn:oasis:names:tc:SAML:2.0:assertion "))
		insertAt(root, e, 1)
		return root
	}},
	{"prefix-redeclared-lookalike", func(s *xswScript, root, evil *etree.Element) *etree.Element {
		// a forged sibling under a prefix that is foreign where it stands (declared on the Response as something else) while the same
		// prefix is bound to the SAML assertion namespace further down the document: code that re-serialises the whole document with
		// hoisted declarations, or reads the Response through another parser than the one that located the assertion, sees two assertions
		e := evil.Copy()
		e.Space = "evil"
		pos := len(root.Child)
		if a := firstAssertion(root); a != nil {
			if id := a.SelectAttrValue("ID", ""); id != "" && s.c.chance(0.7) {
				e.RemoveAttr("ID")
				e.CreateAttr("ID", id)
			}
			pos = a.Index()
			if s.c.chance(0.5) {
				pos++
			}
		}
		root.CreateAttr("xmlns:evil", "urn:example:nothing")
		insertAt(root, e, pos)
		ext := etree.NewElement("Extensions")
		ext.Space = root.Space
		x := ext.CreateElement("evil:x")
		x.CreateAttr("xmlns:evil", "urn:oasis:names:tc:SAML:2.0:assertion")
		root.AddChild(ext)
		return root
	}},
	{"unprefixed-foreign-lookalike", func(s *xswScript, root, evil *etree.Element) *etree.Element {
		// an element with a SAML/dsig local name in a foreign *default* namespace (no prefix at all)
		tag := s.c.pick("Signature", "Assertion", "EncryptedAssertion", "Signature")
		var e *etree.Element
		if tag == "Assertion" {
			e = evil.Copy()
			e.Space = ""
			for _, x := range allElems(e) {
				x.Space = ""
			}
		} else {
			e = etree.NewElement(tag)
			if tag == "Signature" {
				e.CreateElement("KeyInfo").CreateElement("X509Data").CreateElement("X509Certificate").SetText(base64.StdEncoding.EncodeToString(s.c.key("idp").Cert.Raw))
			}
		}
		e.CreateAttr("xmlns", s.c.pick("urn:evil", "urn:evil", nsSAMLP))
		target := root
		if a := firstAssertion(root); a != nil && tag == "Signature" && s.c.chance(0.5) {
			target = a
		}
		insertAt(target, e, s.c.rng.Intn(len(target.Child)+1))
		return root
	}},
	{"splice-other-honest-assertion", func(s *xswScript, root, evil *etree.Element) *etree.Element {
		// the attacker's own, genuinely IdP-signed assertion (for bob) takes the place of the victim's
		bob := s.sign(s.assertion("bob", "id-bob"), "idp")
		s.bobSpliced = true
		if a := firstAssertion(root); a != nil {
			idx := a.Index()
			root.RemoveChild(a)
			insertAt(root, bob, idx)
		} else {
			root.AddChild(bob)
		}
		return root
	}},
	{"other-honest-signature-onto-evil", func(s *xswScript, root, evil *etree.Element) *etree.Element {
		bob := s.sign(s.assertion("bob", "id-bob"), "idp")
		e := evil.Copy()
		if sg := directSig(bob); sg != nil {
			insertAt(e, sg.Copy(), 1)
		}
		e.CreateAttr("ID", "id-bob")
		insertAt(root, e, s.c.rng.Intn(len(root.Child)+1))
		return root
	}},
	{"rename-prefix-on-assertion", func(s *xswScript, root, evil *etree.Element) *etree.Element {
		if a := firstAssertion(root); a != nil {
			a.CreateAttr("xmlns:s2", nsSAML)
			a.Space = "s2"
		}
		return root
	}},
	{"redeclare-prefix-on-root", func(s *xswScript, root, evil *etree.Element) *etree.Element {
		root.CreateAttr("xmlns:saml", s.c.pick(nsSAML, "urn:evil"))
		return root
	}},
	{"unused-declaration", func(s *xswScript, root, evil *etree.Element) *etree.Element {
		els := allElems(root)
		els[s.c.rng.Intn(len(els))].CreateAttr("xmlns:unused", "urn:unused")
		return root
	}},
	{"undeclared-prefix-element", func(s *xswScript, root, evil *etree.Element) *etree.Element {
		els := allElems(root)
		p := els[s.c.rng.Intn(len(els))]
		insertAt(p, etree.NewElement("nope:"+s.c.pick("Thing", "Assertion", "Signature")), s.c.rng.Intn(len(p.Child)+1))
		return root
	}},
	{"nested-signature-in-signed-content", func(s *xswScript, root, evil *etree.Element) *etree.Element {
		sgs := findByTag(root, "Signature")
		if a := firstAssertion(root); a != nil && len(sgs) > 0 {
			if subj := a.SelectElement("Subject"); subj != nil {
				insertAt(subj, sgs[0].Copy(), 0)
			}
		}
		return root
	}},
	{"reencrypt-evil-to-sp", func(s *xswScript, root, evil *etree.Element) *etree.Element {
		insertAt(root, s.encrypt(evil, "sp"), s.c.rng.Intn(len(root.Child)+1))
		return root
	}},
	{"reencrypt-original-to-sp", func(s *xswScript, root, evil *etree.Element) *etree.Element {
		if a := firstAssertion(root); a != nil {
			idx := a.Index()
			root.RemoveChild(a)
			insertAt(root, s.encrypt(a, "sp"), idx)
		}
		return root
	}},
	{"drop-conditions", func(s *xswScript, root, evil *etree.Element) *etree.Element {
		for _, c := range findByTag(root, "Conditions") {
			c.Parent().RemoveChild(c)
			break
		}
		return root
	}},
	{"evil-signed-by-attacker-sibling", func(s *xswScript, root, evil *etree.Element) *etree.Element {
		insertAt(root, s.sign(evil.Copy(), "attacker"), s.c.rng.Intn(len(root.Child)+1))
		return root
	}},
	{"whitespace-between-children", func(s *xswScript, root, evil *etree.Element) *etree.Element {
		els := allElems(root)
		p := els[s.c.rng.Intn(len(els))]
		insertAt(p, etree.NewText("\n  "), s.c.rng.Intn(len(p.Child)+1))
		return root
	}},
}

// ---------- trust configurations ----------

type trustCfg struct {
	kind string // m | p | f | x
	kds  []saml.KeyDescriptor
	toks []string
	set  map[string]bool
	pin  string // kind x: which incomplete / contradictory pin fields are set ("fp", "alg", "fp+cert", "alg+cert", "fp+alg+cert")
}

func (s *xswScript) certB64(key string) string {
	return base64.StdEncoding.EncodeToString(s.c.key(key).Cert.Raw)
}

func (s *xswScript) randTrust() trustCfg {
	mk := func(use string, keys ...string) saml.KeyDescriptor {
		kd := saml.KeyDescriptor{Use: use}
		for _, k := range keys {
			kd.KeyInfo.X509Data.X509Certificates = append(kd.KeyInfo.X509Data.X509Certificates, saml.X509Certificate{Data: s.certB64(k)})
		}
		return kd
	}
	t := trustCfg{set: map[string]bool{}}
	switch s.c.rng.Intn(16) {
	case 12:
		// an unusable pin next to metadata that lists the genuine certificate: nothing is trusted
		t.kind = "x"
		t.pin = s.c.pick("fp", "alg", "fp+cert", "alg+cert", "fp+alg+cert")
		t.kds = []saml.KeyDescriptor{mk("signing", "idp")}
		s.c.count("c01-unusable-pin", t.pin)
	case 0, 1, 8, 9, 10, 11:
		t.kind = "m"
		t.kds = []saml.KeyDescriptor{mk("signing", "idp")}
	case 13, 14:
		t.kind = "p"
	case 15:
		t.kind = "f"
	case 2:
		t.kind = "m"
		t.kds = []saml.KeyDescriptor{mk("signing", "idp"), mk("signing", "idp2")}
	case 3:
		t.kind = "m"
		t.kds = []saml.KeyDescriptor{mk("encryption", "attacker"), mk("", "idp")}
	case 4:
		t.kind = "m"
		t.kds = []saml.KeyDescriptor{mk("signing", "idp2", "idp"), mk("encryption", "attacker", "sp")}
	case 5:
		t.kind = "p"
	case 6:
		t.kind = "f"
	default:
		t.kind = "m"
		t.kds = []saml.KeyDescriptor{mk("encryption", "idp")} // no signing certificate at all
	}
	if (t.kind == "p" || t.kind == "f") && s.c.chance(0.6) {
		// a pinned certificate / fingerprint takes precedence over whatever the metadata lists: those are not roots then
		t.kds = []saml.KeyDescriptor{mk("signing", "attacker"), mk("", "idp2")}
		s.c.count("c01-pinned-with-other-metadata-certs", t.kind)
	}
	switch t.kind {
	case "m":
		t.toks = []string{"m", fmt.Sprint(len(t.kds))}
		for _, kd := range t.kds {
			t.toks = append(t.toks, encStr(kd.Use), fmt.Sprint(len(kd.KeyInfo.X509Data.X509Certificates)))
			for _, x := range kd.KeyInfo.X509Data.X509Certificates {
				tok := s.certTok[x.Data]
				t.toks = append(t.toks, encStr(tok))
				if kd.Use == "" || kd.Use == "signing" {
					t.set[strings.TrimPrefix(tok, "§K:")] = true
				}
			}
		}
	case "p":
		t.toks = []string{"p", encStr(s.certName("idp"))}
		t.set["idp"] = true
	case "f":
		t.toks = []string{"f", encStr(s.certName("idp"))}
		t.set["idp"] = true
	}
	return t
}

func (s *xswScript) realSP(t trustCfg) *saml.ServiceProvider {
	cfg := s.cfg
	sp := &saml.ServiceProvider{EntityID: cfg.EntityID, Key: s.c.key("sp").Key, Certificate: s.c.key("sp").Cert, MetadataURL: mustURL(cfg.MetadataURL), AcsURL: mustURL(cfg.Acs),
		IDPMetadata: &saml.EntityDescriptor{EntityID: cfg.IDPEntity, IDPSSODescriptors: []saml.IDPSSODescriptor{{SSODescriptor: saml.SSODescriptor{RoleDescriptor: saml.RoleDescriptor{KeyDescriptors: t.kds}}}}}}
	switch t.kind {
	case "p":
		c := s.certB64("idp")
		sp.IDPCertificate = &c
	case "f":
		alg := s.c.pick("http://www.w3.org/2001/04/xmlenc#sha256", "http://www.w3.org/2001/04/xmlenc#sha512")
		raw := s.c.key("idp").Cert.Raw
		var sum []byte
		if strings.HasSuffix(alg, "sha256") {
			x := sha256.Sum256(raw)
			sum = x[:]
		} else {
			x := sha512.Sum512(raw)
			sum = x[:]
		}
		var parts []string
		for _, b := range sum {
			parts = append(parts, fmt.Sprintf("%02X", b))
		}
		fp := strings.Join(parts, ":")
		sp.IDPCertificateFingerprint = &fp
		sp.IDPCertificateFingerprintAlgorithm = &alg
	case "x":
		x := sha256.Sum256(s.c.key("idp").Cert.Raw)
		var parts []string
		for _, b := range x {
			parts = append(parts, fmt.Sprintf("%02X", b))
		}
		fp, alg, cert := strings.Join(parts, ":"), "http://www.w3.org/2001/04/xmlenc#sha256", s.certB64("idp")
		if strings.Contains(t.pin, "fp") {
			sp.IDPCertificateFingerprint = &fp
		}
		if strings.Contains(t.pin, "alg") {
			sp.IDPCertificateFingerprintAlgorithm = &alg
		}
		if strings.Contains(t.pin, "cert") {
			sp.IDPCertificate = &cert
		}
	}
	return sp
}

// metadataTrust builds a metadata trust configuration from signing key names (toks is misused as the list of names)
func (s *xswScript) metadataTrust(names []string) trustCfg {
	t := trustCfg{kind: "m", set: map[string]bool{}}
	for _, k := range names {
		kd := saml.KeyDescriptor{Use: "signing"}
		kd.KeyInfo.X509Data.X509Certificates = []saml.X509Certificate{{Data: s.certB64(k)}}
		t.kds = append(t.kds, kd)
		t.set[k] = true
	}
	t.toks = []string{"m", fmt.Sprint(len(names))}
	for _, k := range names {
		t.toks = append(t.toks, encStr("signing"), "1", encStr(s.certName(k)))
	}
	return t
}

// xswStateful: one long-lived ServiceProvider whose IdP metadata is edited in place between messages (key roll-over, key
// withdrawal).  Each message must be judged against the configuration at that moment.
func (c *Ctx) xswStateful() {
	seqs := [][][2][]string{
		// {trusted signing keys, signer}
		{{{"idp", "idp2"}, {"idp2"}}, {{"idp"}, {"idp2"}}, {{"idp"}, {"idp"}}, {{"idp2"}, {"idp"}}, {{"idp2"}, {"idp2"}}},
		{{{"idp"}, {"idp"}}, {{"idp2"}, {"idp"}}, {{"idp2"}, {"idp2"}}, {{"idp", "idp2"}, {"attacker"}}, {{"attacker"}, {"attacker"}}, {{"idp"}, {"attacker"}}},
	}
	for _, seq := range seqs {
		s0 := &xswScript{c: c, certTok: map[string]string{}}
		s0.cfg = baseCfg()
		xswShared = s0.realSP(s0.metadataTrust([]string{"idp"}))
		for _, step := range seq {
			xswForcedTrust = &trustCfg{toks: step[0]}
			xswForcedSigner = step[1][0]
			c.count("c01-stateful-step", strings.Join(step[0], "+")+" signer="+step[1][0])
			c.xswCaseX(0, nil, c.rng.Intn(3), false)
		}
		xswShared, xswForcedTrust, xswForcedSigner = nil, nil, ""
	}
}

// ---------- one case ----------

func (c *Ctx) xswCase(nOps int, forcedOps []int, validBase int) {
	c.xswCaseX(nOps, forcedOps, validBase, false)
}

// state shared between consecutive cases (xswStateful): one ServiceProvider value whose IdP metadata is edited in place
var (
	xswShared       *saml.ServiceProvider
	xswForcedTrust  *trustCfg
	xswForcedSigner string
)

func (c *Ctx) xswCaseX(nOps int, forcedOps []int, validBase int, artifact bool) {
	s := &xswScript{c: c, blobTok: map[string]string{}, certTok: map[string]string{}, trusted: map[string]bool{}, now: ms(baseTime)}
	s.cfg = baseCfg()
	if c.chance(0.3) {
		s.cfg.EntityID = ""
	}
	for _, k := range []string{"idp", "idp2", "attacker", "sp", "sp2"} {
		s.certTok[s.certB64(k)] = s.certName(k)
	}
	trust := s.randTrust()
	for validBase >= 0 && (trust.kind == "m" && !trust.set["idp"]) {
		trust = s.randTrust()
	}
	if xswForcedTrust != nil {
		s.cfg = baseCfg()
		trust = s.metadataTrust(xswForcedTrust.toks)
	}

	// honest phase
	layout := c.pick("assertion-signed", "response-signed", "both-signed", "assertion-signed", "response-signed", "both-signed", "assertion-signed", "response-signed", "both-signed", "assertion-signed", "response-signed", "neither")
	signer := c.pick("idp", "idp", "idp", "idp", "idp", "idp", "idp", "idp2", "attacker")
	encrypted := c.chance(0.25)
	if validBase >= 0 {
		layout = []string{"assertion-signed", "response-signed", "both-signed"}[validBase%3]
		signer = "idp"
		encrypted = (validBase/3)%2 == 1
	}
	if xswForcedSigner != "" {
		signer = xswForcedSigner
	}
	a := s.assertion("alice", "id-a1")
	if layout == "assertion-signed" || layout == "both-signed" {
		a = s.sign(a, signer)
	}
	root := s.response("id-r1")
	if encrypted {
		root.AddChild(s.encrypt(a, "sp"))
	} else {
		root.AddChild(a)
	}
	if layout == "response-signed" || layout == "both-signed" {
		root = s.sign(root, signer)
	}
	if layout != "neither" && trust.set[signer] {
		s.trusted["alice|alice"] = true
	}
	evil := s.assertion("mallory", c.pick("id-evil", "id-a1"))

	artLayout := ""
	var arEl *etree.Element
	if artifact {
		// the (possibly rearranged) Response travels inside an ArtifactResponse inside a SOAP envelope
		ar := saml.ArtifactResponse{ID: "id-art1", InResponseTo: "id-artreq", Version: "2.0", IssueInstant: time.UnixMilli(s.now - 400).UTC(),
			Issuer: &saml.Issuer{Value: s.cfg.IDPEntity}, Status: saml.Status{StatusCode: saml.StatusCode{Value: s.cfg.Success}}}
		arEl = ar.Element()
		// ArtifactResponse.Element() writes an (empty) Response of its own: replace it
		for _, ch := range arEl.ChildElements() {
			if ch.Tag == "Response" {
				arEl.RemoveChild(ch)
			}
		}
		arEl.AddChild(root)
		artLayout = c.pick("unsigned", "unsigned", "signed-idp", "signed-idp", "signed-attacker")
		switch artLayout {
		case "signed-idp":
			arEl = s.sign(arEl, "idp")
			if trust.set["idp"] {
				s.trusted["alice|alice"] = true
			}
		case "signed-attacker":
			arEl = s.sign(arEl, "attacker")
		}
	}
	// attacker phase
	var opNames []string
	for i := 0; i < nOps; i++ {
		idx := c.rng.Intn(len(attackOps))
		if i < len(forcedOps) {
			idx = forcedOps[i]
		}
		op := attackOps[idx]
		if artifact {
			var inner *etree.Element
			for _, ch := range arEl.ChildElements() {
				if ch.Tag == "Response" {
					inner = ch
					break
				}
			}
			if inner != nil {
				pos := inner.Index()
				out := op.run(s, inner, evil)
				if out != inner {
					insertAt(arEl, out, pos)
				}
			}
		} else {
			root = op.run(s, root, evil)
		}
		opNames = append(opNames, op.name)
	}
	if artifact {
		switch c.rng.Intn(10) {
		case 0:
			arEl.AddChild(s.response("id-second")) // two Response children
			artLayout += "+second-response"
		case 1:
			e := s.response("id-evil-r")
			e.AddChild(evil.Copy())
			insertAt(arEl, e, 0)
			artLayout += "+evil-response-first"
		case 2:
			arEl.CreateAttr("InResponseTo", "id-other-artreq")
			artLayout += "+wrong-artifact-id"
		}
		env := etree.NewElement("soapenv:Envelope")
		env.CreateAttr("xmlns:soapenv", "http://schemas.xmlsoap.org/soap/envelope/")
		if c.chance(0.1) {
			env.CreateAttr("xmlns:soapenv", "urn:evil")
			artLayout += "+foreign-envelope"
		}
		body := env.CreateElement("soapenv:Body")
		body.AddChild(arEl)
		if c.chance(0.08) {
			b2 := env.CreateElement("soapenv:Body")
			b2.AddChild(arEl.Copy())
			artLayout += "+two-bodies"
		}
		root = env
		c.count("c01-artifact-layout", artLayout)
	}

	s.ops = opNames
	if s.bobSpliced && trust.set["idp"] {
		s.trusted["bob|bob"] = true
	}
	c.count("c01-layout", layout+map[bool]string{true: "+enc", false: ""}[encrypted])
	c.count("c01-signer", signer)
	c.count("c01-trust", trust.kind+fmt.Sprint(len(trust.kds)))
	for _, n := range opNames {
		c.count("c01-op", n)
	}
	if len(opNames) == 0 {
		c.count("c01-op", "(none)")
	}

	doc := etree.NewDocument()
	doc.SetRoot(root)
	xmlBytes, err := doc.WriteToBytes()
	must(err)

	// the real code
	setGlobals(s.cfg, s.now)
	sp := s.realSP(trust)
	if xswShared != nil {
		// the same ServiceProvider value as in the previous case; only its key descriptors are replaced, in place
		xswShared.IDPMetadata.IDPSSODescriptors[0].KeyDescriptors = trust.kds
		sp = xswShared
	}
	viaForm := !artifact && c.chance(0.3)
	c.count("c01-entry-point", map[bool]string{true: "ParseXMLArtifactResponse", false: map[bool]string{true: "ParseResponse(POST form)", false: "ParseXMLResponse"}[viaForm]}[artifact])
	impl := safely(func() string {
		var as *saml.Assertion
		var err error
		if artifact {
			as, err = sp.ParseXMLArtifactResponse(xmlBytes, []string{"id-req1"}, "id-artreq", mustURL(s.cfg.Acs))
		} else if viaForm {
			// the POST-form entry point: base64 in the SAMLResponse field
			req, _ := http.NewRequest("POST", s.cfg.Acs, nil)
			req.PostForm = url.Values{"SAMLResponse": {base64.StdEncoding.EncodeToString(xmlBytes)}}
			req.Form = req.PostForm
			as, err = sp.ParseResponse(req, []string{"id-req1"})
		} else {
			as, err = sp.ParseXMLResponse(xmlBytes, []string{"id-req1"}, mustURL(s.cfg.Acs))
		}
		if err == nil && as != nil {
			return "ok " + encStr(identFull(as))
		}
		return canonParse(as, err)
	})
	opName := "xsw"
	if artifact {
		opName = "xswart"
	}

	// what the model is given: parse the same bytes again, dump, compute the views with the library's own helpers
	wellFormed := xrv.Validate(bytes.NewReader(xmlBytes)) == nil
	pdoc := etree.NewDocument()
	perr := pdoc.ReadFromBytes(xmlBytes)
	toks := joinToks(s.cfg.toks(), trust.toks)
	if trust.kind == "x" {
		toks = append(toks, "x")
	}
	toks = append(toks, encInt(s.now))
	toks = append(toks, encStrList([]string{"id-req1"})...)
	toks = append(toks, encStr(s.cfg.Acs), encBool(wellFormed && perr == nil && pdoc.Root() != nil))
	toks = append(toks, s.ledgerToks()...)
	if artifact {
		toks = append(toks, encStr("id-artreq"))
	}
	if perr != nil || pdoc.Root() == nil {
		if artifact {
			toks = append(toks, "t", "0", encStr(""), "0", "0", "0", "0", "0")
		} else {
			toks = append(toks, "-", "t", "0", encStr(""), "0", "0", "0")
		}
		c.emit(opName, toks, impl, s.forgeryOracle(impl))
		return
	}
	proot := pdoc.Root()
	sp2 := s.realSP(trust) // a separate instance for the views
	hdrToks := func(el *etree.Element) []string {
		var hdr saml.Response
		if err := saml.VerifUnmarshalElement(el, &hdr); err != nil {
			return []string{"-"}
		}
		t := []string{"+", encStr(hdr.Destination), encStr(hdr.InResponseTo), encInt(ms(hdr.IssueInstant))}
		if hdr.Issuer == nil {
			t = append(t, "-")
		} else {
			t = append(t, "+", encStr(hdr.Issuer.Value))
		}
		return append(t, encStr(hdr.Status.StatusCode.Value))
	}
	if !artifact {
		toks = append(toks, hdrToks(proot)...)
	}
	d := &dumper{s: s, nid: map[*etree.Element]int{}}
	toks = append(toks, d.node(proot)...)
	// decryptions of EncryptedAssertion children of the root (done on a copy of the document, as decryption does not modify it)
	type pl struct {
		nid  int
		root *etree.Element
		toks []string
	}
	var plains []pl
	var aviewEls []*etree.Element
	respEls := []*etree.Element{proot}
	if artifact {
		respEls = findByTag(proot, "Response")
	}
	var candidates []*etree.Element
	for _, r := range respEls {
		candidates = append(candidates, r.ChildElements()...)
	}
	for _, ch := range candidates {
		if ch.Tag == "EncryptedAssertion" {
			p := s.independentDecrypt(ch)
			_ = sp2
			if p == nil {
				plains = append(plains, pl{nid: d.nid[ch]})
			} else {
				plains = append(plains, pl{nid: d.nid[ch], root: p, toks: d.node(p)})
				aviewEls = append(aviewEls, p)
			}
		}
		if ch.Tag == "Assertion" {
			aviewEls = append(aviewEls, ch)
		}
	}
	toks = append(toks, fmt.Sprint(len(plains)))
	for _, p := range plains {
		toks = append(toks, fmt.Sprint(p.nid))
		if p.root == nil {
			toks = append(toks, "-")
		} else {
			toks = append(toks, "+")
			toks = append(toks, p.toks...)
		}
	}
	toks = append(toks, fmt.Sprint(len(aviewEls)))
	for _, el := range aviewEls {
		toks = append(toks, fmt.Sprint(d.nid[el]))
		var av saml.Assertion
		if err := saml.VerifUnmarshalElement(el, &av); err != nil {
			toks = append(toks, "-")
		} else {
			toks = append(toks, "+")
			toks = append(toks, assertionViewToks(&av)...)
		}
	}
	// views of every ds:Signature element (main document and decrypted plaintexts)
	var sigEls []*etree.Element
	roots := []*etree.Element{proot}
	for _, p := range plains {
		if p.root != nil {
			roots = append(roots, p.root)
		}
	}
	for _, r := range roots {
		for _, e := range allElems(r) {
			if e.Tag == "Signature" {
				if ns, ok := resolveNS(e); ok && ns == nsDSIG {
					sigEls = append(sigEls, e)
				}
			}
		}
	}
	toks = append(toks, fmt.Sprint(len(sigEls)))
	for _, e := range sigEls {
		toks = append(toks, fmt.Sprint(d.nid[e]))
		toks = append(toks, s.sigViewToks(e)...)
	}
	if len(opNames) == 0 {
		c.count("c01-noop-outcome", fmt.Sprintf("%s enc=%v signer=%s trust=%s%d -> %s", layout, encrypted, signer, trust.kind, len(trust.kds), strings.Fields(impl)[0]))
	}
	if artifact {
		toks = append(toks, fmt.Sprint(len(respEls)))
		for _, r := range respEls {
			toks = append(toks, fmt.Sprint(d.nid[r]))
			toks = append(toks, hdrToks(r)...)
		}
		arEls := findByTag(proot, "ArtifactResponse")
		toks = append(toks, fmt.Sprint(len(arEls)))
		for _, a := range arEls {
			toks = append(toks, fmt.Sprint(d.nid[a]))
			var ar saml.ArtifactResponse
			if err := saml.VerifUnmarshalElement(a, &ar); err != nil {
				toks = append(toks, "-")
			} else {
				toks = append(toks, "+", encStr(ar.InResponseTo), encInt(ms(ar.IssueInstant)))
				if ar.Issuer == nil {
					toks = append(toks, "-")
				} else {
					toks = append(toks, "+", encStr(ar.Issuer.Value))
				}
				toks = append(toks, encStr(ar.Status.StatusCode.Value))
			}
		}
	}
	id := c.emit(opName, toks, impl, s.forgeryOracle(impl))
	c.note(id, fmt.Sprintf("layout=%s enc=%v signer=%s trust=%s%d artifact=%q ops=%v", layout, encrypted, signer, trust.kind, len(trust.kds), artLayout, opNames))
}

// independentDecrypt is the harness's own reading of what decrypting an EncryptedAssertion means: exactly one
// xenc:EncryptedData child, an optional EncryptedKey child, xmlenc with the SP key, round-trip validation, parse.
func (s *xswScript) independentDecrypt(ea *etree.Element) (out *etree.Element) {
	defer func() {
		if recover() != nil {
			out = nil
		}
	}()
	var eds []*etree.Element
	for _, ch := range ea.ChildElements() {
		if ch.Tag == "EncryptedData" {
			ns, ok := resolveNS(ch)
			if !ok {
				return nil
			}
			if ns == "http://www.w3.org/2001/04/xmlenc#" {
				eds = append(eds, ch)
			}
		}
	}
	if len(eds) != 1 {
		return nil
	}
	var key interface{} = s.c.key("sp").Key
	for _, ch := range ea.ChildElements() {
		if ch.Tag == "EncryptedKey" {
			k, err := xmlenc.Decrypt(key, ch)
			if err != nil {
				return nil
			}
			key = k
			break
		}
	}
	plain, err := xmlenc.Decrypt(key, eds[0])
	if err != nil {
		return nil
	}
	if xrv.Validate(bytes.NewReader(plain)) != nil {
		return nil
	}
	doc := etree.NewDocument()
	if doc.ReadFromBytes(plain) != nil || doc.Root() == nil {
		return nil
	}
	return doc.Root()
}

// forgeryOracle: whatever is returned must carry an identity that a trusted key signed in the honest phase.
func (s *xswScript) forgeryOracle(impl string) string {
	if strings.HasPrefix(impl, "panic") {
		return "key=c01-panic " + impl
	}
	if !strings.HasPrefix(impl, "ok ") {
		return ""
	}
	f := strings.Fields(impl)
	id := ""
	if len(f) > 1 {
		id = unpct(f[1][1:])
	}
	if !s.trusted[id] {
		return fmt.Sprintf("key=c01-forgery the SP returned identity %q, which no trusted key signed (operations: %v)", id, s.ops)
	}
	return ""
}

func unpct(s string) string {
	var b []byte
	for i := 0; i < len(s); i++ {
		if s[i] == '%' && i+2 < len(s) {
			var v byte
			fmt.Sscanf(s[i+1:i+3], "%02X", &v)
			b = append(b, v)
			i += 2
		} else {
			b = append(b, s[i])
		}
	}
	return string(b)
}

// c01Siblings: several assertions in one unsigned Response, each with its own signature state and its own validity — a verified
// signature speaks for the element it is on: a genuinely signed assertion that is stale, addressed elsewhere or answers
// another request does not vouch for an unsigned (or attacker-signed) sibling, before or after it, plaintext or encrypted
func (c *Ctx) c01Siblings() {
	now := ms(baseTime)
	for _, order := range []string{"stale-first", "stale-last"} {
		for _, defect := range []string{"expired", "other-request", "other-recipient", "other-audience", "not-yet-valid"} {
			for _, wrap := range []string{"p", "e"} {
				for _, forgedSig := range []string{"none", "attacker"} {
					cfg := baseCfg()
					r := baseResp(cfg, now)
					r.Sig = "none"
					genuine := r.Entries[0]
					genuine.Sig, genuine.Wrap, genuine.Ident = "idp", wrap, "alice-genuine"
					subj := append([]SConf{}, (*genuine.Subject)...)
					d := *subj[0].Data
					cond := *genuine.Cond
					switch defect {
					case "expired":
						cond.NOA = now - cfg.Skew - 1000
					case "other-request":
						d.IRT = "id-some-older-request"
					case "other-recipient":
						d.Recipient = "https://other-sp.example.com/saml/acs"
					case "other-audience":
						cond.Auds = []string{"https://other-sp.example.com/metadata"}
					case "not-yet-valid":
						cond.NB = now + cfg.Skew + 1000
					}
					subj[0].Data = &d
					genuine.Subject, genuine.Cond = &subj, &cond
					forged := baseResp(cfg, now).Entries[0]
					forged.Sig, forged.Ident = forgedSig, "mallory-forged"
					if order == "stale-first" {
						r.Entries = []Assn{genuine, forged}
					} else {
						r.Entries = []Assn{forged, genuine}
					}
					c.count("c01-siblings", order+"/"+defect+"/"+wrap+"/"+forgedSig)
					c.runSP(spCase{cfg: cfg, now: now, ids: []string{"id-req1"}, url: cfg.Acs, r: r, lex: 0, entry: "xml"})
				}
			}
		}
	}
}

func (c *Ctx) genC01() {
	defer c.c01Siblings()
	// honest documents and every single operation on every layout first (unconditional), then random scripts
	for i := 0; i < 40; i++ {
		c.xswCase(0, nil, -1)
	}
	// every operation on every valid base layout (3 signing layouts x plaintext/encrypted)
	reps := 1
	if !c.quick() {
		reps = 8
	}
	for r := 0; r < reps; r++ {
		for i := range attackOps {
			for b := 0; b < 6; b++ {
				c.xswCase(1, []int{i}, b)
			}
		}
	}
	// every ordered pair of operations on a valid base
	if !c.quick() {
		for i := range attackOps {
			for j := range attackOps {
				c.xswCase(2, []int{i, j}, c.rng.Intn(6))
			}
		}
	}
	c.xswStateful()
	cr := 250
	if !c.quick() {
		cr = 4000
	}
	c.concurrentParses(cr)
	// the artifact binding: the same scripts inside ArtifactResponse / SOAP envelope
	na := 300
	if !c.quick() {
		na = 6000
	}
	for i := 0; i < na; i++ {
		vb := -1
		if c.chance(0.7) {
			vb = c.rng.Intn(6)
		}
		c.xswCaseX(c.rng.Intn(3), nil, vb, true)
	}
	n := 900
	if !c.quick() {
		n = 20000
	}
	for i := 0; i < n; i++ {
		vb := -1
		if c.chance(0.6) {
			vb = c.rng.Intn(6)
		}
		c.xswCase(1+c.rng.Intn(3), nil, vb)
	}
	_ = dsig.Namespace
}
