package main

// C17: histories of login flows through the real samlsp.Middleware; every ACS delivery is compared with the model's
// serveACS on the abstract jar, and judged by a direct reading of the property.

import (
	"encoding/base64"
	"encoding/json"
	"fmt"
	"net/http"
	"net/http/httptest"
	"net/url"
	"sort"
	"strings"
	"time"

	"github.com/crewjam/saml"
	"github.com/crewjam/saml/samlsp"
	"github.com/golang-jwt/jwt/v4"
)

func init() { gens["C17"] = (*Ctx).genC17 }

type mwFlow struct {
	k        int
	url      string
	index    string
	id       string
	start    time.Time
	cookie   string // raw tracking cookie value
	answered bool
	done     bool
}

type mwWorld struct {
	c       *Ctx
	root    string
	https   bool
	mw      *samlsp.Middleware
	now     time.Time
	jar     map[string]string // name -> value (browser)
	flows   []*mwFlow
	abs     map[string]jwtToken // raw cookie value -> abstract token
	binding string
}

// mwOptsHook: further options for the next worlds (options that must not change which responses are accepted)
var mwOptsHook func(*samlsp.Options)

func (c *Ctx) newWorld(root string, binding string) *mwWorld {
	k := c.key("sp")
	opts := samlsp.Options{URL: mustURL(root), Key: k.Key, Certificate: k.Cert,
		IDPMetadata: &saml.EntityDescriptor{EntityID: idpEntity, IDPSSODescriptors: []saml.IDPSSODescriptor{{
			SSODescriptor: saml.SSODescriptor{RoleDescriptor: saml.RoleDescriptor{KeyDescriptors: []saml.KeyDescriptor{{Use: "signing", KeyInfo: saml.KeyInfo{X509Data: saml.X509Data{
				X509Certificates: []saml.X509Certificate{{Data: base64.StdEncoding.EncodeToString(c.key("idp").Cert.Raw)}}}}}}}},
			SingleSignOnServices: []saml.Endpoint{{Binding: saml.HTTPRedirectBinding, Location: idpSSOURL}, {Binding: saml.HTTPPostBinding, Location: idpSSOURL}}}}}}
	saml.MaxIssueDelay = 90 * time.Second
	saml.MaxClockSkew = 180 * time.Second
	if mwOptsHook != nil {
		mwOptsHook(&opts)
	}
	m, err := samlsp.New(opts)
	must(err)
	m.Binding = binding
	return &mwWorld{c: c, root: root, https: strings.HasPrefix(root, "https"), mw: m, now: baseTime, jar: map[string]string{}, abs: map[string]jwtToken{}, binding: binding}
}

func (w *mwWorld) setClock() {
	now := w.now
	saml.TimeNow = func() time.Time { return now }
	jwt.TimeFunc = func() time.Time { return now }
}

func (w *mwWorld) do(r *http.Request, jar map[string]string) *httptest.ResponseRecorder {
	names := []string{}
	for n := range jar {
		names = append(names, n)
	}
	sort.Strings(names)
	for _, n := range names {
		r.AddCookie(&http.Cookie{Name: n, Value: jar[n]})
	}
	rec := httptest.NewRecorder()
	protected := w.mw.RequireAccount(http.HandlerFunc(func(rw http.ResponseWriter, _ *http.Request) { rw.WriteHeader(299) }))
	mux := http.NewServeMux()
	mux.Handle("/saml/", w.mw)
	mux.Handle("/", protected)
	mux.ServeHTTP(rec, r)
	return rec
}

// absorb applies Set-Cookie headers to the browser jar
func (w *mwWorld) absorb(rec *httptest.ResponseRecorder) (set []*http.Cookie) {
	for _, ck := range rec.Result().Cookies() {
		set = append(set, ck)
		if ck.Value == "" || (!ck.Expires.IsZero() && ck.Expires.Before(w.now)) || ck.MaxAge < 0 {
			delete(w.jar, ck.Name)
		} else {
			w.jar[ck.Name] = ck.Value
		}
	}
	return
}

func jwtPayload(raw string) map[string]interface{} {
	parts := strings.Split(raw, ".")
	if len(parts) != 3 {
		return nil
	}
	b, err := base64.RawURLEncoding.DecodeString(parts[1])
	if err != nil {
		return nil
	}
	var m map[string]interface{}
	if json.Unmarshal(b, &m) != nil {
		return nil
	}
	return m
}

func num(v interface{}) int64 {
	f, _ := v.(float64)
	return int64(f)
}

func str1(v interface{}) string {
	switch x := v.(type) {
	case string:
		return x
	case []interface{}:
		if len(x) > 0 {
			s, _ := x[0].(string)
			return s
		}
	}
	return ""
}

// abstractOf reads a server-issued token's payload; the MAC is authentic because the real middleware minted it.
func (w *mwWorld) abstractOf(raw string) jwtToken {
	if t, ok := w.abs[raw]; ok {
		return t
	}
	m := jwtPayload(raw)
	if m == nil {
		return jwtToken{wellFormed: false, raw: raw}
	}
	b, _ := m["saml-session"].(bool)
	a, _ := m["saml-authn-request"].(bool)
	cl := jwtClaims{Aud: str1(m["aud"]), Iss: str1(m["iss"]), Sub: str1(m["sub"]), Exp: num(m["exp"]), Iat: num(m["iat"]), Nbf: num(m["nbf"]), SamlSession: b, SamlAuthn: a,
		TrackedID: str1(m["id"]), TrackedURI: str1(m["uri"])}
	t := jwtToken{wellFormed: true, alg: "RS256", claims: cl, macKey: "sp", macAlg: "RS256", raw: raw}
	w.abs[raw] = t
	return t
}

func (w *mwWorld) startFlow(u string) *mwFlow {
	w.setClock()
	saml.RandReader = &detReader{c: w.c}
	r := httptest.NewRequest("GET", u, nil) // as a server sees it: path and query only
	r.Host = strings.TrimPrefix(strings.TrimPrefix(w.root, "https://"), "http://")
	rec := w.do(r, w.jar)
	f := &mwFlow{k: len(w.flows), url: u, start: w.now}
	var orc []string
	set := w.absorb(rec)
	for _, ck := range set {
		if strings.HasPrefix(ck.Name, "saml_") {
			f.index = strings.TrimPrefix(ck.Name, "saml_")
			f.cookie = ck.Value
			if !ck.HttpOnly || ck.Secure != w.https || ck.Path != "/saml/acs" || ck.MaxAge != 90 {
				orc = append(orc, fmt.Sprintf("tracking cookie flags: HttpOnly=%v Secure=%v Path=%q MaxAge=%d", ck.HttpOnly, ck.Secure, ck.Path, ck.MaxAge))
			}
		}
	}
	var relay, samlReq string
	if w.binding == saml.HTTPPostBinding {
		o, _ := observeForm(rec.Body.Bytes())
		relay, _ = inputVal(o, "RelayState")
		samlReq, _ = inputVal(o, "SAMLRequest")
		if b, err := base64.StdEncoding.DecodeString(samlReq); err == nil {
			f.id = attrOf(string(b), "ID")
		}
	} else if loc, err := url.Parse(rec.Header().Get("Location")); err == nil {
		relay = loc.Query().Get("RelayState")
		if b, err := inflateB64(loc.Query().Get("SAMLRequest")); err == nil {
			f.id = attrOf(string(b), "ID")
		}
	}
	if relay != f.index || f.index == "" || f.id == "" {
		orc = append(orc, fmt.Sprintf("flow start: relay state %q, tracking index %q, request id %q", relay, f.index, f.id))
	}
	t := w.abstractOf(f.cookie)
	if t.claims.TrackedID != f.id || t.claims.TrackedURI != u || t.claims.Sub != f.index || t.claims.Exp != w.now.Add(90*time.Second).Unix() {
		orc = append(orc, fmt.Sprintf("tracking token does not record this request: %+v", t.claims))
	}
	w.flows = append(w.flows, f)
	w.c.count("c17-step", "start")
	res := "started"
	if len(orc) > 0 {
		w.c.emitOneWay("mwstart", nil, res, "key=flow-start "+strings.Join(orc, "; "))
	} else {
		w.c.emitOneWay("mwstart", nil, res, "")
	}
	return f
}

func attrOf(xmlText, name string) string {
	i := strings.Index(xmlText, " "+name+"=\"")
	if i < 0 {
		return ""
	}
	rest := xmlText[i+len(name)+3:]
	j := strings.Index(rest, "\"")
	if j < 0 {
		return ""
	}
	return rest[:j]
}

func (w *mwWorld) cfgToks() []string {
	tc := []string{"RS256", "1", encStr(w.root), encStr(w.root), "90"}
	sc := []string{"RS256", "1", encStr(w.root), encStr(w.root), "3600"}
	return joinToks(tc, sc, []string{encStr("/"), "0", encBool(w.https)})
}

// deliver posts a response for flow f (or with a foreign InResponseTo) with the given jar and relay state
func (w *mwWorld) deliver(irt string, valid bool, jar map[string]string, relay string, tag string) {
	w.setClock()
	cfg := baseCfg()
	cfg.Acs = w.root + "/saml/acs"
	cfg.EntityID = ""
	cfg.MetadataURL = w.root + "/saml/metadata"
	r := baseResp(cfg, ms(w.now))
	r.IRT = irt
	(*r.Entries[0].Subject)[0].Data.IRT = irt
	if !valid {
		r.Entries[0].Sig = "attacker"
	}
	b := &builder{c: w.c, spCert: w.c.key("sp").Cert, badCert: w.c.key("sp2").Cert}
	xmlb := elBytes(b.responseEl(r))
	form := url.Values{"SAMLResponse": {base64.StdEncoding.EncodeToString(xmlb)}}
	if relay != "" {
		form.Set("RelayState", relay)
	}
	req := httptest.NewRequest("POST", "/saml/acs", strings.NewReader(form.Encode()))
	req.Host = strings.TrimPrefix(strings.TrimPrefix(w.root, "https://"), "http://")
	req.Header.Set("Content-Type", "application/x-www-form-urlencoded")
	rec := w.do(req, jar)
	// observation
	sessionSet, httpOnly, secure := false, false, false
	var cleared []string
	for _, ck := range rec.Result().Cookies() {
		if ck.Name == "token" && ck.Value != "" {
			sessionSet, httpOnly, secure = true, ck.HttpOnly, ck.Secure
		}
		if strings.HasPrefix(ck.Name, "saml_") && ck.Value == "" {
			cleared = append(cleared, strings.TrimPrefix(ck.Name, "saml_"))
		}
	}
	sort.Strings(cleared)
	impl := fmt.Sprintf("%d %s %s %s %s %d", rec.Code, encStr(rec.Header().Get("Location")), encBool(sessionSet), encBool(httpOnly), encBool(secure), len(cleared))
	for _, cidx := range cleared {
		impl += " " + encStr(cidx)
	}
	// abstract jar
	names := []string{}
	for n := range jar {
		names = append(names, n)
	}
	sort.Strings(names)
	toks := joinToks(w.cfgToks(), []string{encInt(w.now.Unix()), fmt.Sprint(len(names))})
	for _, n := range names {
		switch {
		case strings.HasPrefix(n, "saml_"):
			toks = append(toks, "t", encStr(strings.TrimPrefix(n, "saml_")))
		case n == "token":
			toks = append(toks, "s")
		default:
			toks = append(toks, "o", encStr(n))
		}
		t := w.abstractOf(jar[n])
		toks = append(toks, t.toks()[1:]...) // drop the leading "+"
	}
	toks = append(toks, encBool(valid), encStr(irt), encStr(relay))
	// direct oracle (property text)
	var authentic []jwtToken // authentic, unexpired tracking cookies stored under their own index
	for _, n := range names {
		if !strings.HasPrefix(n, "saml_") {
			continue
		}
		t := w.abstractOf(jar[n])
		if t.wellFormed && t.alg == "RS256" && t.macKey == "sp" && t.claims.SamlAuthn && t.claims.Aud == w.root && t.claims.Iss == w.root &&
			w.now.Unix() < t.claims.Exp && t.claims.Nbf <= w.now.Unix() && t.claims.Sub == strings.TrimPrefix(n, "saml_") {
			authentic = append(authentic, t)
		}
	}
	bound := false
	for _, t := range authentic {
		bound = bound || t.claims.TrackedID == irt
	}
	var why []string
	if sessionSet && !(valid && bound) {
		why = append(why, "a session cookie was set although the request carries no authentic, unexpired tracking cookie of the request this response answers")
	}
	if !sessionSet && rec.Code != 403 {
		why = append(why, fmt.Sprintf("refused with status %d instead of 403", rec.Code))
	}
	if sessionSet {
		if !httpOnly || secure != w.https {
			why = append(why, "session cookie flags")
		}
		loc := rec.Header().Get("Location")
		if relay == "" {
			if loc != "/" {
				why = append(why, "redirect without RelayState goes to "+loc)
			}
		} else {
			okLoc := false
			for _, t := range authentic {
				if t.claims.Sub == relay && t.claims.TrackedURI == loc {
					okLoc = true
				}
			}
			if !okLoc {
				why = append(why, "redirect target "+loc+" is not the URL recorded in the authentic tracking cookie named by RelayState")
			}
			if len(cleared) != 1 || cleared[0] != relay {
				why = append(why, fmt.Sprintf("cleared cookies %v, expected exactly %q", cleared, relay))
			}
		}
	}
	if valid && bound && relay != "" && !sessionSet {
		// completeness only when RelayState names an authentic cookie
		for _, t := range authentic {
			if t.claims.Sub == relay {
				why = append(why, "a valid response to a pending flow, delivered with its tracking cookie and RelayState, was refused")
			}
		}
	}
	orc := ""
	if len(why) > 0 {
		orc = "key=mw-acs:" + tag + " " + strings.Join(why, "; ")
	}
	w.c.count("c17-step", "deliver:"+tag)
	w.c.emit("acs", toks, impl, orc)
	// the browser absorbs the reply only when it was the browser's own jar
	if tag == "faithful" || tag == "interleaved" {
		w.absorb(rec)
	}
}

func copyJar(j map[string]string) map[string]string {
	o := map[string]string{}
	for k, v := range j {
		o[k] = v
	}
	return o
}

func (c *Ctx) genC17() {
	defer c.optionsDoNotAllowUnsolicited()
	histories := 12
	if !c.quick() {
		histories = 150
	}
	for h := 0; h < histories; h++ {
		root := "https://sp.example.com"
		if h%3 == 1 {
			root = "http://sp.example.com"
		}
		binding := ""
		if h%2 == 1 {
			binding = saml.HTTPPostBinding
		}
		w := c.newWorld(root, binding)
		nf := 1 + c.rng.Intn(3)
		if !c.quick() {
			nf = 1 + c.rng.Intn(5)
		}
		for k := 0; k < nf; k++ {
			// the URL the browser asked for, verbatim: escapes in the path (an encoded slash, question mark, percent sign,
			// non-ASCII) are part of it
			paths := []string{"/app/page%d", "/app/a%%2Fb/page%d", "/wiki/What%%3Fnext=%%2Fadmin/%d", "/files/100%%25/%d", "/caf%%C3%%A9/%d", "/app/page%d"}
			w.startFlow(fmt.Sprintf(paths[(h+k)%len(paths)]+"?q=%d&x=a%%20b", k, c.rng.Intn(100)))
			w.now = w.now.Add(time.Duration(1+c.rng.Intn(10)) * time.Second)
		}
		// adversarial deliveries before anything completes
		for _, f := range w.flows {
			// no cookies at all / another flow's cookie only / renamed cookie / tampered cookie / wrong relay / foreign response
			w.deliver(f.id, true, map[string]string{}, f.index, "no-cookies")
			others := map[string]string{}
			for _, g := range w.flows {
				if g != f {
					others["saml_"+g.index] = g.cookie
				}
			}
			w.deliver(f.id, true, others, f.index, "only-other-flows")
			if len(w.flows) > 1 {
				g := w.flows[(f.k+1)%len(w.flows)]
				ren := map[string]string{"saml_" + g.index: f.cookie}
				w.deliver(f.id, true, ren, g.index, "renamed-cookie")
				both := copyJar(w.jar)
				w.deliver(f.id, true, both, g.index, "relay-of-other-flow")
			}
			tam := map[string]string{"saml_" + f.index: f.cookie[:len(f.cookie)-3] + "AAA"}
			w.abs[tam["saml_"+f.index]] = func() jwtToken { t := w.abstractOf(f.cookie); t.macKey = ""; t.raw = tam["saml_"+f.index]; return t }()
			w.deliver(f.id, true, tam, f.index, "tampered-cookie")
			w.deliver("id-foreign", true, copyJar(w.jar), f.index, "foreign-inresponseto")
			// an unsolicited response (no InResponseTo anywhere) while requests are outstanding: "" is not an outstanding ID
			w.deliver("", true, copyJar(w.jar), f.index, "unsolicited-no-inresponseto")
			w.deliver("", true, copyJar(w.jar), "", "unsolicited-no-inresponseto-no-relay")
			w.deliver(f.id, false, copyJar(w.jar), f.index, "invalid-response")
			w.deliver(f.id, true, copyJar(w.jar), "", "no-relay")
			w.deliver(f.id, true, copyJar(w.jar), "https://evil.example.org/", "relay-is-a-url")
			// forged tracking cookie signed by the attacker
			forged := c.sign("RS256", jwtClaims{Aud: w.root, Iss: w.root, Sub: f.index, Exp: w.now.Add(time.Minute).Unix(), Iat: w.now.Unix(), Nbf: w.now.Unix(), SamlAuthn: true, TrackedID: f.id, TrackedURI: "https://evil.example.org/"}, "attacker")
			w.abs[forged.raw] = forged
			w.deliver(f.id, true, map[string]string{"saml_" + f.index: forged.raw}, f.index, "forged-cookie")
			// a session token of this SP presented as tracking cookie
			sess := c.sign("RS256", jwtClaims{Aud: w.root, Iss: w.root, Sub: f.index, Exp: w.now.Add(time.Minute).Unix(), Iat: w.now.Unix(), Nbf: w.now.Unix(), SamlSession: true, TrackedID: f.id, TrackedURI: "/x"}, "sp")
			w.abs[sess.raw] = sess
			w.deliver(f.id, true, map[string]string{"saml_" + f.index: sess.raw}, f.index, "session-token-as-tracker")
			// the browser's whole jar (so the response does answer a pending request) plus one more cookie that RelayState
			// names and that is not an authentic tracking cookie for that name: tampered / another flow's token renamed /
			// forged / a session token / garbage / expired
			extra := func(tag, name, raw string) {
				j := copyJar(w.jar)
				j["saml_"+name] = raw
				w.deliver(f.id, true, j, name, tag)
			}
			extra("relay-names-tampered-cookie", "bogus1", tam["saml_"+f.index])
			w.abs[tam["saml_"+f.index]] = func() jwtToken { t := w.abstractOf(f.cookie); t.macKey = ""; t.raw = tam["saml_"+f.index]; return t }()
			extra("relay-names-renamed-cookie", "bogus2", f.cookie)
			extra("relay-names-forged-cookie", "bogus3", forged.raw)
			extra("relay-names-session-token", "bogus4", sess.raw)
			extra("relay-names-garbage-cookie", "bogus5", "not.a.jwt")
			expired := c.sign("RS256", jwtClaims{Aud: w.root, Iss: w.root, Sub: "bogus6", Exp: w.now.Add(-time.Minute).Unix(), Iat: w.now.Add(-3 * time.Minute).Unix(), Nbf: w.now.Add(-3 * time.Minute).Unix(), SamlAuthn: true, TrackedID: "id-old", TrackedURI: "/old"}, "sp")
			w.abs[expired.raw] = expired
			extra("relay-names-expired-cookie", "bogus6", expired.raw)
		}
		// faithful completion in a random order (interleaving), possibly after the lifetime for some
		order := c.rng.Perm(len(w.flows))
		for _, i := range order {
			f := w.flows[i]
			if c.chance(0.2) {
				w.now = f.start.Add(time.Duration(89+c.rng.Intn(4)) * time.Second) // around the tracking lifetime
				if w.now.Before(baseTime) {
					w.now = baseTime
				}
			}
			tag := "interleaved"
			if w.now.Sub(f.start) >= 90*time.Second {
				tag = "after-lifetime"
			}
			w.deliver(f.id, true, copyJar(w.jar), f.index, tag)
			// replay of the same response after completion
			w.deliver(f.id, true, copyJar(w.jar), f.index, "replay")
		}
	}
}
