package main

// C10 / C11: xmlenc.  Byte-exact CBC framing through the toy cipher hook, registry dispatch with
// ledger-backed primitives, real-cipher round trips and an independent stdlib reference.

import (
	"bytes"
	"crypto"
	"crypto/aes"
	"crypto/cipher"
	"crypto/des"
	crand "crypto/rand"
	"crypto/rsa"
	"crypto/sha1"
	"crypto/sha256"
	"crypto/sha512"
	"crypto/x509"
	"crypto/x509/pkix"
	"encoding/base64"
	"fmt"
	"hash"
	"math/big"
	"math/rand"
	"strings"
	"time"

	"github.com/beevik/etree"
	"github.com/crewjam/saml/xmlenc"
	"golang.org/x/crypto/ripemd160"
)

func init() {
	gens["C10"] = (*Ctx).genC10
	gens["C11"] = (*Ctx).genC11
	xmlenc.RegisterDecrypter(xmlenc.VerifNewCBC(5, "urn:verif:toy-cbc8", 8))
	xmlenc.RegisterDecrypter(xmlenc.VerifNewCBC(7, "urn:verif:toy-cbc16", 16))
}

// detReader: deterministic random source; records what was drawn
type detReader struct {
	c     *Ctx
	drawn [][]byte
	short bool   // legal io.Reader behaviour: return fewer bytes than asked for
	all   []byte // everything handed out, in order
	// own stream, seeded by one draw from the case PRNG: the standard library reads a data-independent, *non-deterministic* number of
	// bytes from a custom random source (randutil.MaybeReadByte), which must not disturb the generator's own choices
	r *rand.Rand
}

func (d *detReader) Read(p []byte) (int, error) {
	if d.r == nil {
		d.r = rand.New(rand.NewSource(d.c.rng.Int63()))
	}
	n := len(p)
	if d.short && n > 1 {
		n = 1 + d.r.Intn(n-1)
	}
	for i := 0; i < n; i++ {
		p[i] = byte(1 + d.r.Intn(255))
	}
	d.drawn = append(d.drawn, append([]byte{}, p[:n]...))
	d.all = append(d.all, p[:n]...)
	return n, nil
}

func (c *Ctx) randBytes(n int) []byte {
	b := make([]byte, n)
	for i := range b {
		b[i] = byte(c.rng.Intn(256))
	}
	return b
}

func cipherValueOf(el *etree.Element) ([]byte, error) {
	cv := el.FindElement("./CipherData/CipherValue")
	if cv == nil {
		return nil, fmt.Errorf("no cipher value")
	}
	return base64.StdEncoding.DecodeString(strings.TrimSpace(cv.Text()))
}

func outBytes(b []byte, err error) string {
	if err != nil {
		return "err"
	}
	return "ok " + encBytes(b)
}

// ---- toy cipher, byte exact ----

func (c *Ctx) toyEnc(bs int, key, plaintext []byte) {
	dr := &detReader{c: c}
	xmlenc.RandReader = dr
	bc := xmlenc.VerifNewCBC(len(key), "urn:verif:toy", bs)
	var iv []byte
	impl := safely(func() string {
		el, err := bc.Encrypt(key, plaintext, nil)
		if err != nil {
			return "err"
		}
		ct, err := cipherValueOf(el)
		if err != nil {
			return "err-ciphervalue"
		}
		if len(dr.drawn) != 2 || fmt.Sprintf("_%x", dr.drawn[0]) != el.SelectAttrValue("Id", "") {
			return "err-random-stream"
		}
		iv = dr.drawn[1]
		return encBytes(ct) + " " + outBytes(bc.Decrypt(key, el))
	})
	orc := ""
	if !strings.HasSuffix(impl, "ok "+encBytes(plaintext)) {
		orc = "key=cbc-roundtrip:len" + fmt.Sprint(len(plaintext)%bs) + " Decrypt(Encrypt(p)) != p with the toy cipher, bs=" + fmt.Sprint(bs) + " len=" + fmt.Sprint(len(plaintext)) + ": " + impl
		if len(plaintext) == 0 {
			orc = "key=cbc-empty-plaintext Decrypt(Encrypt(\"\")) fails: " + impl
		}
	}
	if iv == nil {
		iv = make([]byte, bs)
	}
	c.emit("cbcenc", []string{fmt.Sprint(bs), encBytes(key), encBytes(iv), encBytes(plaintext)}, impl, orc)
}

func cipherEl(alg string, ct []byte) *etree.Element {
	el := etree.NewElement("xenc:EncryptedData")
	el.CreateAttr("xmlns:xenc", "http://www.w3.org/2001/04/xmlenc#")
	em := el.CreateElement("xenc:EncryptionMethod")
	em.CreateAttr("Algorithm", alg)
	el.CreateElement("xenc:CipherData").CreateElement("xenc:CipherValue").SetText(base64.StdEncoding.EncodeToString(ct))
	return el
}

func (c *Ctx) toyDec(bs int, key, ct []byte) {
	bc := xmlenc.VerifNewCBC(len(key), "urn:verif:toy", bs)
	impl := safely(func() string { return outBytes(bc.Decrypt(key, cipherEl("urn:verif:toy", ct))) })
	orc := ""
	if strings.HasPrefix(impl, "panic") {
		kind := "unaligned"
		if len(ct) < bs {
			kind = "short"
		} else if bs != 16 {
			kind = "iv-size"
		}
		orc = "key=cbc-decrypt-panic:" + kind + " CBC.Decrypt panicked on a cipher value of " + fmt.Sprint(len(ct)) + " bytes, block size " + fmt.Sprint(bs)
	}
	c.emit("cbcdec", []string{fmt.Sprint(bs), encBytes(key), encBytes(ct)}, impl, orc)
}

// ---- abstract layers ----

type xLayer struct {
	alg    *string
	digest *string
	cert   string // "" absent | match | mismatch | garbage | ecdsa | samemod-e3 | samemod-e17 (the key's modulus under another public exponent)
	cipher string // a | b | v
	ct     []byte
}

// certTok: does the embedded certificate parse and match the supplied RSA key (1 = sp, 2 = sp2)?
func (l xLayer) certTok(keyID int) string {
	switch l.cert {
	case "":
		return "-"
	case "match":
		if keyID != 2 {
			return "+ 1"
		}
	case "mismatch":
		if keyID == 2 {
			return "+ 1"
		}
	}
	return "+ 0"
}

func (l xLayer) toks(keyID int) []string {
	t := append(encOptStr(l.alg), encOptStr(l.digest)...)
	t = append(t, strings.Split(l.certTok(keyID), " ")...)
	if l.cipher == "v" {
		t = append(t, "v", encBytes(l.ct))
	} else {
		t = append(t, l.cipher)
	}
	return t
}

func (c *Ctx) layersEl(ls []xLayer, depth int) *etree.Element {
	l := ls[0]
	name := "xenc:EncryptedData"
	if depth > 0 {
		name = "xenc:EncryptedKey"
	}
	el := etree.NewElement(name)
	el.CreateAttr("xmlns:xenc", "http://www.w3.org/2001/04/xmlenc#")
	el.CreateAttr("xmlns:ds", "http://www.w3.org/2000/09/xmldsig#")
	if l.alg != nil {
		em := el.CreateElement("xenc:EncryptionMethod")
		em.CreateAttr("Algorithm", *l.alg)
		if l.digest != nil {
			em.CreateElement("ds:DigestMethod").CreateAttr("Algorithm", *l.digest)
		}
	}
	if l.cert != "" || len(ls) > 1 || (c.kiExtra != "" && depth == 0) {
		// the XML-Signature elements under any prefix the document chooses, or in a default namespace
		dsn := func(local string) string { return "ds:" + local }
		var ki *etree.Element
		switch c.kiPrefix {
		case "", "ds":
			ki = el.CreateElement("ds:KeyInfo")
		case "none":
			dsn = func(local string) string { return local }
			ki = el.CreateElement("KeyInfo")
			ki.CreateAttr("xmlns", "http://www.w3.org/2000/09/xmldsig#")
		default:
			pfx := c.kiPrefix
			dsn = func(local string) string { return pfx + ":" + local }
			ki = el.CreateElement(pfx + ":KeyInfo")
			ki.CreateAttr("xmlns:"+pfx, "http://www.w3.org/2000/09/xmldsig#")
		}
		if l.cert != "" {
			var txt string
			switch l.cert {
			case "match":
				txt = base64.StdEncoding.EncodeToString(c.key("sp").Cert.Raw)
			case "mismatch":
				txt = base64.StdEncoding.EncodeToString(c.key("sp2").Cert.Raw)
			case "ecdsa":
				txt = base64.StdEncoding.EncodeToString(c.key("ec256").Cert.Raw)
			case "samemod-e3":
				txt = base64.StdEncoding.EncodeToString(c.sameModulusCert(3))
			case "samemod-e17":
				txt = base64.StdEncoding.EncodeToString(c.sameModulusCert(17))
			default:
				txt = "bm90IGEgY2VydGlmaWNhdGU="
			}
			ki.CreateElement(dsn("X509Data")).CreateElement(dsn("X509Certificate")).SetText(txt)
		}
		if c.kiExtra != "" && depth == 0 {
			// references to key material elsewhere: legal KeyInfo content this package does not follow — and must survive
			switch {
			case strings.HasPrefix(c.kiExtra, "retrieval:"):
				rm := ki.CreateElement(dsn("RetrievalMethod"))
				rm.CreateAttr("URI", strings.TrimPrefix(c.kiExtra, "retrieval:"))
				rm.CreateAttr("Type", "http://www.w3.org/2001/04/xmlenc#EncryptedKey")
			case strings.HasPrefix(c.kiExtra, "keyname:"):
				ki.CreateElement(dsn("KeyName")).SetText(strings.TrimPrefix(c.kiExtra, "keyname:"))
			default:
				ki.CreateElement(dsn("KeyValue"))
			}
		}
		if len(ls) > 1 {
			ki.AddChild(c.layersEl(ls[1:], depth+1))
		}
	}
	switch l.cipher {
	case "b":
		el.CreateElement("xenc:CipherData").CreateElement("xenc:CipherValue").SetText("@@not base64@@")
	case "v":
		el.CreateElement("xenc:CipherData").CreateElement("xenc:CipherValue").SetText(base64.StdEncoding.EncodeToString(l.ct))
	}
	return el
}

// structuredKey: key number i of a cycle of random and structured keys of n bytes
func (c *Ctx) structuredKey(n int, i int) []byte {
	k := make([]byte, n)
	g := func(group int, b []byte) { copy(k[group*8:], b) }
	a, b2, d := c.randBytes(8), c.randBytes(8), c.randBytes(8)
	kind := i % 10
	switch kind {
	case 1: // all zero
	case 2:
		for j := range k {
			k[j] = 0xff
		}
	case 3: // one 8-byte group repeated
		for j := 0; j*8 < n; j++ {
			g(j, a)
		}
	case 4: // first two groups equal
		g(0, a)
		g(1, a)
		for j := 2; j*8 < n; j++ {
			g(j, d)
		}
	case 5: // last two groups equal
		for j := 0; j*8 < n; j++ {
			g(j, b2)
		}
		g(0, a)
	case 6: // first and last equal
		for j := 0; j*8 < n; j++ {
			g(j, b2)
		}
		g(0, a)
		g(n/8-1, a)
	case 7:
		for j := range k {
			k[j] = byte(j)
		}
	case 8:
		for j := range k {
			k[j] = 0x01
		}
	default:
		copy(k, c.randBytes(n))
	}
	c.count("c10-key-structure", []string{"random", "zero", "ones", "group-repeated", "first-two-equal", "last-two-equal", "first-last-equal", "counting", "des-weak", "random"}[kind])
	return k
}

var sameModCerts = map[int][]byte{}

// sameModulusCert: a certificate (issued by another key) for the public key (N of the SP key, another exponent) — not the SP's key
func (c *Ctx) sameModulusCert(e int) []byte {
	if der, ok := sameModCerts[e]; ok {
		return der
	}
	pub := &rsa.PublicKey{N: c.key("sp").RSA().N, E: e}
	tmpl := &x509.Certificate{SerialNumber: big.NewInt(int64(1000 + e)), Subject: pkix.Name{CommonName: "same modulus, exponent " + fmt.Sprint(e)},
		NotBefore: time.Date(2020, 1, 1, 0, 0, 0, 0, time.UTC), NotAfter: time.Date(2040, 1, 1, 0, 0, 0, 0, time.UTC)}
	der, err := x509.CreateCertificate(crand.Reader, tmpl, c.key("sp2").Cert, pub, c.key("sp2").Key)
	must(err)
	sameModCerts[e] = der
	return der
}

// ---- independent reference primitives (standard library only) ----

var digestHash = map[string]func() hash.Hash{
	"http://www.w3.org/2000/09/xmldsig#sha1":      sha1.New,
	"http://www.w3.org/2000/09/xmldsig#sha256":    sha256.New,
	"http://www.w3.org/2000/09/xmldsig#sha512":    sha512.New,
	"http://www.w3.org/2000/09/xmldsig#ripemd160": ripemd160.New,
}

const (
	uriOAEP   = "http://www.w3.org/2001/04/xmlenc#rsa-oaep-mgf1p"
	uriOAEP11 = "http://www.w3.org/2009/xmlenc11#rsa-oaep"
	uriPKCS   = "http://www.w3.org/2001/04/xmlenc#rsa-1_5"
	uriAES128 = "http://www.w3.org/2001/04/xmlenc#aes128-cbc"
	uriAES192 = "http://www.w3.org/2001/04/xmlenc#aes192-cbc"
	uriAES256 = "http://www.w3.org/2001/04/xmlenc#aes256-cbc"
	uri3DES   = "http://www.w3.org/2001/04/xmlenc#tripledes-cbc"
	uriGCM    = "http://www.w3.org/2009/xmlenc11#aes128-gcm"
	uriSHA1   = "http://www.w3.org/2000/09/xmldsig#sha1"
	uriSHA256 = "http://www.w3.org/2000/09/xmldsig#sha256"
	uriSHA512 = "http://www.w3.org/2000/09/xmldsig#sha512"
	uriRIPEMD = "http://www.w3.org/2000/09/xmldsig#ripemd160"
)

func refBlock(key []byte, bs int) cipher.Block {
	switch {
	case bs == 16 && (len(key) == 16 || len(key) == 24 || len(key) == 32):
		b, _ := aes.NewCipher(key)
		return b
	case bs == 8 && len(key) == 24:
		b, _ := des.NewTripleDESCipher(key)
		return b
	case bs == 8 && len(key) == 8:
		b, _ := des.NewCipher(key)
		return b
	}
	return nil
}

// refCBCEncrypt: W3C xmlenc CBC framing written from the specification
func refCBCEncrypt(key []byte, bs int, iv, plaintext []byte) []byte {
	pad := bs - len(plaintext)%bs
	buf := append(append([]byte{}, plaintext...), bytes.Repeat([]byte{0xAA}, pad-1)...) // arbitrary pad bytes are allowed
	buf = append(buf, byte(pad))
	out := make([]byte, len(buf))
	cipher.NewCBCEncrypter(refBlock(key, bs), iv).CryptBlocks(out, buf)
	return append(append([]byte{}, iv...), out...)
}

func refCBCDecrypt(key []byte, bs int, ct []byte) ([]byte, bool) {
	if len(ct) < 2*bs || len(ct)%bs != 0 {
		return nil, false
	}
	out := make([]byte, len(ct)-bs)
	cipher.NewCBCDecrypter(refBlock(key, bs), ct[:bs]).CryptBlocks(out, ct[bs:])
	pad := int(out[len(out)-1])
	if pad < 1 || pad > bs {
		return nil, false
	}
	return out[:len(out)-pad], true
}

// ---- ledger ----

type ledger struct {
	ecb  [][3][]byte
	rsa  []string
	aead []string
	seen map[string]bool
}

func (L *ledger) toks() []string {
	t := []string{fmt.Sprint(len(L.ecb))}
	for _, e := range L.ecb {
		t = append(t, encBytes(e[0]), encBytes(e[1]), encBytes(e[2]))
	}
	t = append(t, fmt.Sprint(len(L.rsa)))
	for _, e := range L.rsa {
		t = append(t, strings.Split(e, " ")...)
	}
	t = append(t, fmt.Sprint(len(L.aead)))
	for _, e := range L.aead {
		t = append(t, strings.Split(e, " ")...)
	}
	return t
}

func (L *ledger) addECB(key []byte, ct []byte) {
	for _, bs := range []int{8, 16} {
		blk := refBlock(key, bs)
		if blk == nil {
			continue
		}
		for i := 0; i+bs <= len(ct); i += bs {
			k := fmt.Sprintf("%x/%x", key, ct[i:i+bs])
			if L.seen[k] {
				continue
			}
			L.seen[k] = true
			out := make([]byte, bs)
			blk.Decrypt(out, ct[i:i+bs])
			L.ecb = append(L.ecb, [3][]byte{key, append([]byte{}, ct[i:i+bs]...), out})
		}
	}
}

func (L *ledger) addAEAD(key, ct []byte) {
	if len(key) != 16 || len(ct) < 12 {
		return
	}
	blk, _ := aes.NewCipher(key)
	g, _ := cipher.NewGCM(blk)
	res := "-"
	if p, err := g.Open(nil, ct[:12], ct[12:], nil); err == nil {
		res = "+ " + encBytes(p)
	}
	L.aead = append(L.aead, encBytes(key)+" "+encBytes(ct[:12])+" "+encBytes(ct[12:])+" "+res)
}

// rsa key ids: 1 = sp, 2 = sp2, 3 = rsa2047 (a modulus whose bit length is not a multiple of eight)
func (c *Ctx) rsaKey(id int) *rsa.PrivateKey {
	if id == 2 {
		return c.key("sp2").RSA()
	}
	if id == 3 {
		return c.key("rsa2047").RSA()
	}
	return c.key("sp").RSA()
}

func (c *Ctx) addRSA(L *ledger, id int, digest string, wrapped []byte) [][]byte {
	var keys [][]byte
	priv := c.rsaKey(id)
	if h, ok := digestHash[digest]; ok {
		res := "-"
		if k, err := rsa.DecryptOAEP(h(), nil, priv, wrapped, nil); err == nil {
			res = "+ " + encBytes(k)
			keys = append(keys, k)
		}
		L.rsa = append(L.rsa, "o "+encStr(digest)+" "+fmt.Sprint(id)+" "+encBytes(wrapped)+" "+res)
	}
	res := "-"
	if k, err := rsa.DecryptPKCS1v15(nil, priv, wrapped); err == nil {
		res = "+ " + encBytes(k)
		keys = append(keys, k)
	}
	for d := range digestHash {
		L.rsa = append(L.rsa, "p "+encStr(d)+" "+fmt.Sprint(id)+" "+encBytes(wrapped)+" "+res)
	}
	return keys
}

type xKey struct {
	kind  string // b | r | o
	bytes []byte
	id    int
	other interface{}
}

func (k xKey) toks() []string {
	switch k.kind {
	case "b":
		return []string{"b", encBytes(k.bytes)}
	case "r":
		return []string{"r", fmt.Sprint(k.id)}
	}
	return []string{"o"}
}

func (c *Ctx) goKey(k xKey) interface{} {
	switch k.kind {
	case "b":
		return k.bytes
	case "r":
		return c.rsaKey(k.id)
	}
	return k.other
}

// xdecrypt runs the real registry dispatch on an element built from abstract layers.
// xdecryptRefuse: as xdecrypt, for a case the property says must be refused; `refuse` is the oracle line if it is not
func (c *Ctx) xdecryptRefuse(k xKey, ls []xLayer, tag, refuse string) {
	c.mustRefuse = refuse
	defer func() { c.mustRefuse = "" }()
	c.xdecrypt(k, ls, nil, tag)
}

func (c *Ctx) xdecrypt(k xKey, ls []xLayer, expect []byte, tag string) {
	el := c.layersEl(ls, 0)
	impl := safely(func() string { return outBytes(xmlenc.Decrypt(c.goKey(k), el)) })
	// ledger: candidate keys = the supplied byte key + everything the RSA layers unwrap (+ closure through block layers)
	L := &ledger{seen: map[string]bool{}}
	var cand [][]byte
	if k.kind == "b" {
		cand = append(cand, k.bytes)
	}
	for i := len(ls) - 1; i >= 0; i-- {
		l := ls[i]
		if l.cipher != "v" {
			continue
		}
		if k.kind == "r" {
			dg := uriSHA1
			if l.digest != nil {
				dg = *l.digest
			}
			cand = append(cand, c.addRSA(L, k.id, dg, l.ct)...)
		}
		for _, key := range cand {
			L.addECB(key, l.ct)
			L.addAEAD(key, l.ct)
			for _, bs := range []int{8, 16} {
				if refBlock(key, bs) != nil {
					if p, ok := refCBCDecrypt(key, bs, l.ct); ok {
						cand = append(cand, p)
					}
				}
			}
		}
	}
	orc := ""
	if strings.HasPrefix(impl, "panic") {
		orc = "key=xmlenc-decrypt-panic:" + tag + " xmlenc.Decrypt panicked: " + impl
	} else if expect != nil && impl != "ok "+encBytes(expect) {
		orc = "key=xmlenc-roundtrip:" + tag + " expected the plaintext back, got " + impl
	} else if c.mustRefuse != "" && strings.HasPrefix(impl, "ok") {
		orc = c.mustRefuse
	} else if strings.HasPrefix(tag, "gcm-t") || tag == "gcm-extended" {
		// "for AES-GCM any modification of the cipher value is rejected": these cases are modified values of a valid one
		if strings.HasPrefix(impl, "ok") {
			orc = "key=gcm-modified-accepted:" + tag + " a modified AES-GCM cipher value (" + tag + ") was decrypted: " + impl
		}
	}
	// an RSA-wrapped key whose embedded certificate is not the supplied key's must be refused, whatever the ciphertext
	if orc == "" && k.kind == "r" && strings.HasPrefix(impl, "ok") {
		// the supplied RSA key is consumed by the first RSA-transport layer of the chain (layers nested below it are never looked at)
		for _, l := range ls {
			if l.alg != nil && strings.Contains(*l.alg, "rsa") {
				if l.cert != "" && l.certTok(k.id) != "+ 1" {
					orc = "key=c11-cert-mismatch-accepted decryption succeeded although the EncryptedKey names a certificate (" + l.cert + ") that does not belong to the supplied key"
				}
				break
			}
		}
	}
	toks := joinToks(k.toks(), []string{fmt.Sprint(len(ls))})
	for _, l := range ls {
		toks = append(toks, l.toks(k.id)...)
	}
	toks = append(toks, L.toks()...)
	c.count("xdecrypt-tag", tag)
	c.emit("xdecrypt", toks, impl, orc)
}

// parse an element produced by the package into abstract layers (the harness's own reading)
func (c *Ctx) layersOf(el *etree.Element) []xLayer {
	var out []xLayer
	for el != nil {
		var l xLayer
		if em := el.FindElement("./EncryptionMethod"); em != nil {
			a := em.SelectAttrValue("Algorithm", "")
			l.alg = &a
			if dm := em.FindElement("./DigestMethod"); dm != nil {
				d := dm.SelectAttrValue("Algorithm", "")
				l.digest = &d
			}
		}
		if ce := el.FindElement("./KeyInfo/X509Data/X509Certificate"); ce != nil {
			l.cert = "garbage"
			if der, err := base64.StdEncoding.DecodeString(strings.TrimSpace(ce.Text())); err == nil {
				if cert, err := x509.ParseCertificate(der); err == nil {
					if pk, ok := cert.PublicKey.(*rsa.PublicKey); ok && pk.N.Cmp(c.key("sp").RSA().N) == 0 && pk.E == c.key("sp").RSA().E {
						l.cert = "match"
					} else {
						l.cert = "mismatch"
					}
				}
			}
		}
		if cv := el.FindElement("./CipherData/CipherValue"); cv != nil {
			if b, err := base64.StdEncoding.DecodeString(strings.TrimSpace(cv.Text())); err == nil {
				l.cipher, l.ct = "v", b
			} else {
				l.cipher = "b"
			}
		} else {
			l.cipher = "a"
		}
		out = append(out, l)
		el = el.FindElement("./KeyInfo/EncryptedKey")
	}
	return out
}

type bcDesc struct {
	name string
	bc   xmlenc.BlockCipher
	uri  string
	bs   int
}

func blockCiphers() []bcDesc {
	return []bcDesc{{"AES128CBC", xmlenc.AES128CBC, uriAES128, 16}, {"AES192CBC", xmlenc.AES192CBC, uriAES192, 16}, {"AES256CBC", xmlenc.AES256CBC, uriAES256, 16},
		{"TripleDES", xmlenc.TripleDES, uri3DES, 8}, {"AES128GCM", xmlenc.AES128GCM, uriGCM, 16}}
}

func (c *Ctx) plaintexts(bs int) [][]byte {
	var out [][]byte
	for n := 0; n <= 4*bs+1; n++ {
		if c.quick() && n > bs+1 && n%bs > 1 && n%bs < bs-1 {
			continue
		}
		p := c.randBytes(n)
		if n > 0 && c.chance(0.3) {
			p[n-1] = byte(c.rng.Intn(bs + 2)) // looks like padding
		}
		out = append(out, p)
	}
	out = append(out, c.randBytes(1000+c.rng.Intn(3000)))
	return out
}

func (c *Ctx) genC10() {
	// (i) toy cipher, byte exact, every length 0..4 blocks+1
	for _, bs := range []int{8, 16} {
		for n := 0; n <= 4*bs+1; n++ {
			c.toyEnc(bs, c.randBytes(3+c.rng.Intn(6)), c.randBytes(n))
		}
	}
	for i := 0; i < 200; i++ {
		bs := []int{8, 16, 4, 32}[c.rng.Intn(4)]
		c.toyEnc(bs, c.randBytes(1+c.rng.Intn(40)), c.randBytes(c.rng.Intn(300)))
	}
	// (ii) every offered block cipher, direct key: Encrypt -> the harness's reading of the element -> real dispatch + model
	for _, d := range blockCiphers() {
		if d.uri == uriGCM {
			continue
		}
		for pi, p := range c.plaintexts(d.bs) {
			// "every key of the right size": random keys and keys with structure (constant, repeating 8-byte groups in every
			// arrangement, counting bytes, the DES weak key pattern)
			key := c.structuredKey(d.bc.KeySize(), pi)
			xmlenc.RandReader = &detReader{c: c}
			var el *etree.Element
			// the optional nonce argument of Encrypt (used by GCM, handed through by the key-transport layer): whatever the
			// caller supplies — nothing, a GCM-sized nonce, exactly one block, more — what comes out must decrypt to the plaintext
			var nonce []byte
			switch pi % 5 {
			case 1:
				nonce = c.randBytes(12)
			case 2:
				nonce = c.randBytes(d.bs)
			case 3:
				nonce = c.randBytes(d.bs + 4)
			case 4:
				nonce = c.randBytes(8)
			}
			c.count("c10-supplied-nonce", fmt.Sprintf("%s/%d", d.name, len(nonce)))
			res := safely(func() string {
				e, err := d.bc.Encrypt(key, p, nonce)
				if err != nil {
					return "err " + pct(err.Error())
				}
				el = e
				return "ok"
			})
			if el == nil {
				c.emitOneWay("encfail", []string{encStr(d.name)}, res, "key=encrypt-fails:"+d.name+" "+d.name+".Encrypt fails for a key of KeySize(): "+res)
				continue
			}
			c.xdecrypt(xKey{kind: "b", bytes: key}, c.layersOf(el), p, "direct:"+d.name)
			// interop: the reference decrypts the package's ciphertext
			ct, _ := cipherValueOf(el)
			if refBlock(key, d.bs) != nil {
				if rp, ok := refCBCDecrypt(key, d.bs, ct); !ok || !bytes.Equal(rp, p) {
					c.emitOneWay("interop", []string{encStr(d.name)}, "mismatch", "key=interop-out:"+d.name+" the stdlib reference cannot decrypt the package's ciphertext")
				}
				// and the package decrypts the reference's ciphertext (arbitrary pad bytes)
				rct := refCBCEncrypt(key, d.bs, c.randBytes(d.bs), p)
				c.xdecrypt(xKey{kind: "b", bytes: key}, []xLayer{{alg: sp(d.uri), cipher: "v", ct: rct}}, p, "interop-in:"+d.name)
			} else {
				c.emitOneWay("interop", []string{encStr(d.name)}, "nokey", "key=interop-key:"+d.name+" the key size of "+d.name+" is not one the W3C algorithm "+d.uri+" admits")
			}
		}
	}
	// (ii-b) the plaintext Decrypt returns belongs to the caller: later decryptions (of any cipher) leave it alone
	{
		type held struct {
			name string
			out  []byte
			snap []byte
			want []byte
		}
		var hs []held
		why := ""
		bcs := blockCiphers()
		for i := 0; i < 12 && why == ""; i++ {
			d := bcs[i%len(bcs)]
			if d.uri == uriGCM {
				continue // GCM encryption is the known finding of this property; its decryption is sequenced in C11's cases
			}
			key := c.randBytes(d.bc.KeySize())
			p := bytes.Repeat([]byte{byte('A' + i)}, 24+8*(i%3))
			xmlenc.RandReader = &detReader{c: c}
			res := safely(func() string {
				el, err := d.bc.Encrypt(key, p, nil)
				if err != nil {
					return "skip" // (GCM encryption is a known finding; nothing to hold)
				}
				out, err := d.bc.Decrypt(key, el)
				if err != nil {
					return "skip"
				}
				hs = append(hs, held{d.name, out, append([]byte{}, out...), p})
				return "ok"
			})
			if strings.HasPrefix(res, "panic") {
				why = "key=decrypt-sequence-panic " + res
			}
			for _, h := range hs {
				if !bytes.Equal(h.out, h.snap) {
					why = fmt.Sprintf("key=decrypt-output-unstable the plaintext returned by %s.Decrypt changed when a later element was decrypted (step %d): was %q, now %q", h.name, i, h.snap, h.out)
					break
				}
			}
		}
		c.count("c10-held-plaintexts", fmt.Sprint(len(hs)))
		c.emitOneWay("decryptstable", nil, "done", why)
	}
	// (iii) key transports x block ciphers x digests
	type ktDesc struct {
		name string
		mk   func() xmlenc.RSA
		dgs  []xmlenc.DigestMethod
	}
	kts := []ktDesc{
		{"OAEP", xmlenc.OAEP, []xmlenc.DigestMethod{xmlenc.SHA1, xmlenc.SHA256, xmlenc.SHA512, xmlenc.RIPEMD160}},
		{"OAEP_SHA256", xmlenc.OAEP_SHA256, []xmlenc.DigestMethod{xmlenc.SHA256}},
		{"OAEP_SHA512", xmlenc.OAEP_SHA512, []xmlenc.DigestMethod{xmlenc.SHA512}},
		{"PKCS1v15", xmlenc.PKCS1v15, []xmlenc.DigestMethod{nil}},
	}
	cert := c.key("sp").Cert
	for _, kt := range kts {
		for _, dg := range kt.dgs {
			for _, d := range blockCiphers() {
				if d.uri == uriGCM {
					continue
				}
				reps := 2
				if !c.quick() {
					reps = 12
				}
				for r := 0; r < reps; r++ {
					p := c.randBytes(c.rng.Intn(5 * d.bs))
					if r == 0 {
						p = []byte{}
					}
					enc := kt.mk()
					enc.BlockCipher = d.bc
					if dg != nil {
						enc.DigestMethod = dg
					}
					xmlenc.RandReader = &detReader{c: c}
					var el *etree.Element
					res := safely(func() string {
						e, err := enc.Encrypt(cert, p, nil)
						if err != nil {
							return "err " + pct(err.Error())
						}
						el = e
						return "ok"
					})
					tag := kt.name + "/" + d.name
					if el == nil {
						c.emitOneWay("encfail", []string{encStr(tag)}, res, "key=encrypt-fails:"+tag+" Encrypt fails: "+res)
						continue
					}
					c.xdecrypt(xKey{kind: "r", id: 1}, c.layersOf(el), p, "transport:"+tag)
					// "every key": the same under a key whose modulus is 2047 bits long
					if r == 0 {
						var el3 *etree.Element
						res3 := safely(func() string {
							e, err := enc.Encrypt(c.key("rsa2047").Cert, p, nil)
							if err != nil {
								return "err " + pct(err.Error())
							}
							el3 = e
							return "ok"
						})
						if el3 == nil {
							c.emitOneWay("encfail", []string{encStr(tag + "/rsa2047")}, res3, "key=encrypt-fails:"+tag+"/rsa2047 Encrypt fails: "+res3)
						} else {
							// (direct oracle: the package decrypts what it encrypted, after a serialise / parse generation)
							back := safely(func() string {
								doc := etree.NewDocument()
								doc.SetRoot(el3)
								b, err := doc.WriteToBytes()
								if err != nil {
									return "err " + pct(err.Error())
								}
								doc2 := etree.NewDocument()
								if err := doc2.ReadFromBytes(b); err != nil {
									return "err " + pct(err.Error())
								}
								return outBytes(xmlenc.Decrypt(c.key("rsa2047").RSA(), doc2.Root()))
							})
							orc := ""
							if back != "ok "+encBytes(p) {
								orc = "key=xmlenc-roundtrip:rsa2047:" + tag + " Decrypt(Encrypt(p)) under a 2047-bit RSA key: " + back
							}
							c.count("c10-odd-modulus", tag)
							c.emitOneWay("rt2047", []string{encStr(tag), encBytes(p)}, back, orc)
						}
					}
				}
			}
		}
	}
	// (iii-b) what a conforming peer may omit: rsa-oaep (both identifiers) without a DigestMethod element means SHA-1
	{
		pub := c.key("sp").Cert.PublicKey.(*rsa.PublicKey)
		for _, d := range blockCiphers() {
			if d.uri == uriGCM {
				continue
			}
			for _, kt := range []string{uriOAEP, uriOAEP11} {
				for _, certKind := range []string{"", "match"} {
					ck := c.randBytes(d.bc.KeySize())
					p := []byte("<a>digest method omitted</a>")
					if refBlock(ck, d.bs) == nil {
						continue
					}
					ct := refCBCEncrypt(ck, d.bs, c.randBytes(d.bs), p)
					wrapped, _ := rsa.EncryptOAEP(sha1.New(), &detReader{c: c}, pub, ck, nil)
					ls := []xLayer{{alg: sp(d.uri), cipher: "v", ct: ct}, {alg: sp(kt), digest: nil, cert: certKind, cipher: "v", ct: wrapped}}
					c.count("c10-digest-omitted", d.name)
					c.xdecrypt(xKey{kind: "r", id: 1}, ls, p, "oaep-digest-omitted:"+d.name)
				}
			}
		}
	}
	// (iv-a) AES-128-GCM decryption of what a conforming peer sends (no padding): every length 0..4 blocks+1, and at the
	// block-aligned lengths every kind of final byte (a value that looks like padding, zero, large)
	for n := 0; n <= 65; n++ {
		finals := []int{-1}
		if n > 0 && n%16 == 0 {
			finals = []int{-1, 0x00, 0x01, 0x02, 0x0a, 0x0d, 0x0f, 0x10, 0x11, 0x20, 0xff}
		}
		for _, fb := range finals {
			key, nonce, p := c.randBytes(16), c.randBytes(12), c.randBytes(n)
			if fb >= 0 {
				p[n-1] = byte(fb)
			}
			blk, _ := aes.NewCipher(key)
			g, _ := cipher.NewGCM(blk)
			ct := append(append([]byte{}, nonce...), g.Seal(nil, nonce, p, nil)...)
			c.xdecrypt(xKey{kind: "b", bytes: key}, []xLayer{{alg: sp(uriGCM), cipher: "v", ct: ct}}, p, "gcm-decrypt-reference-lengths")
		}
	}
	// (iv) AES-128-GCM: decryption of well-formed values (reference-made), and the encryption defect
	for n := 0; n <= 40; n += 3 {
		key, nonce, p := c.randBytes(16), c.randBytes(12), c.randBytes(n)
		blk, _ := aes.NewCipher(key)
		g, _ := cipher.NewGCM(blk)
		ct := append(append([]byte{}, nonce...), g.Seal(nil, nonce, p, nil)...)
		c.xdecrypt(xKey{kind: "b", bytes: key}, []xLayer{{alg: sp(uriGCM), cipher: "v", ct: ct}}, p, "gcm-decrypt-reference")
		for _, withNonce := range []bool{true, false} {
			var nn []byte
			if withNonce {
				nn = nonce
			}
			xmlenc.RandReader = &detReader{c: c}
			var outCT []byte
			impl := safely(func() string {
				el, err := xmlenc.AES128GCM.Encrypt(key, p, nn)
				if err != nil {
					return "err"
				}
				outCT, _ = cipherValueOf(el)
				return "ok " + encBytes(outCT)
			})
			orc := ""
			if strings.HasPrefix(impl, "panic") {
				orc = "key=gcm-encrypt-nil-nonce-panic AES128GCM.Encrypt panics when no nonce is supplied"
			} else {
				back := safely(func() string { return outBytes(xmlenc.AES128GCM.Decrypt(key, cipherEl(uriGCM, outCT))) })
				if back != "ok "+encBytes(p) {
					orc = "key=gcm-encrypt-supplied-nonce Decrypt(AES128GCM.Encrypt(p, nonce)) != p: " + back
				}
			}
			pad := 16 - n%16
			sealed := g.Seal(nil, nonce, make([]byte, n+pad), nil)
			nt := []string{"-"}
			if withNonce {
				nt = []string{"+", encBytes(nonce)}
			}
			c.emit("gcmenc", joinToks(nt, []string{encBytes(p), encBytes(sealed)}), impl, orc)
		}
	}
	_ = crypto.SHA1
}

// spLevelDecrypt: the pre-authentication reachability of C11 — the same totality through the ServiceProvider's own entry points,
// for the key values a ServiceProvider can hold (RSA, ECDSA, none)
func (c *Ctx) spLevelDecrypt() {
	now := ms(baseTime)
	for _, rsig := range []string{"none", "idp"} {
		for _, entry := range []string{"xml", "post"} {
			for _, spKey := range []string{"", "ec", "none"} {
				for _, wrap := range []string{"e", "b", "b-empty", "b-key-empty", "b-3des-pad09", "b-3des-pad16", "b-noroot-empty"} {
					cfg := baseCfg()
					r := baseResp(cfg, now)
					r.Sig = rsig
					r.Entries[0].Wrap = wrap
					if spKey != "" && wrap == "e" {
						r.Entries[0].Wrap = "b-spkey"
					}
					c.count("c11-sp-level", "key="+spKey+"/"+wrap)
					c.runSP(spCase{cfg: cfg, now: now, ids: []string{"id-req1"}, url: cfg.Acs, r: r, lex: 0, entry: entry, spKey: spKey})
				}
			}
		}
	}
}

func (c *Ctx) genC11() {
	defer c.spLevelDecrypt()
	// exhaustive cipher-value lengths 0..4 blocks+1, toy cipher (byte exact) and every registered algorithm (ledger)
	for _, bs := range []int{8, 16} {
		for n := 0; n <= 4*bs+1; n++ {
			c.toyDec(bs, c.randBytes(5), c.randBytes(n))
			// a valid ciphertext truncated / extended to n bytes
			key := c.randBytes(5)
			full := c.randBytes(n)
			c.toyDec(bs, key, full)
		}
	}
	for _, d := range blockCiphers() {
		maxN := 4*d.bs + 1
		for n := 0; n <= maxN; n++ {
			key := c.randBytes(d.bc.KeySize())
			ct := c.randBytes(n)
			if d.uri != uriGCM && refBlock(key, d.bs) != nil && n >= 2*d.bs && n%d.bs == 0 && c.chance(0.6) {
				ct = refCBCEncrypt(key, d.bs, c.randBytes(d.bs), c.randBytes(n-d.bs-1-c.rng.Intn(d.bs)))[:n]
			}
			c.xdecrypt(xKey{kind: "b", bytes: key}, []xLayer{{alg: sp(d.uri), cipher: "v", ct: ct}}, nil, "lengths:"+d.name)
		}
		// every value of the final padding byte, for 1 and 2 body blocks (IV chosen so the last plaintext byte is v)
		if d.uri != uriGCM {
			key := c.randBytes(d.bc.KeySize())
			if blk := refBlock(key, d.bs); blk != nil {
				for nb := 1; nb <= 2; nb++ {
					for v := 0; v < 256; v++ {
						ct := c.randBytes((nb + 1) * d.bs)
						last := ct[nb*d.bs:]
						dec := make([]byte, d.bs)
						blk.Decrypt(dec, last)
						prev := ct[(nb-1)*d.bs : nb*d.bs]
						prev[d.bs-1] = dec[d.bs-1] ^ byte(v)
						c.xdecrypt(xKey{kind: "b", bytes: key}, []xLayer{{alg: sp(d.uri), cipher: "v", ct: ct}}, nil, "padbyte:"+d.name)
					}
				}
			}
		}
		// a *wrapped* key of another valid size: a message encrypted under cipher R and relabelled as d (the cipher value is
		// perfectly valid under R) — the unwrapped key has the wrong size for d and must be refused, not used
		if d.uri != uriGCM {
			for _, r := range blockCiphers() {
				if r.uri == uriGCM || r.uri == d.uri || r.bs != d.bs {
					continue
				}
				for _, kt := range []func() xmlenc.RSA{xmlenc.OAEP, xmlenc.PKCS1v15} {
					enc := kt()
					enc.BlockCipher = r.bc
					xmlenc.RandReader = &detReader{c: c}
					var el *etree.Element
					safely(func() string {
						e, err := enc.Encrypt(c.key("sp").Cert, []byte("<a>relabelled</a>"), nil)
						if err == nil {
							el = e
						}
						return ""
					})
					if el == nil {
						continue
					}
					ls := c.layersOf(el)
					ls[0].alg = sp(d.uri)
					c.count("c11-relabelled", d.name+"<-"+r.name)
					c.xdecryptRefuse(xKey{kind: "r", id: 1}, ls, "relabel:"+d.name+"<-"+r.name, "key=c11-wrong-size-wrapped-key the content was decrypted with an unwrapped key whose size is not the one "+d.name+" takes (message encrypted under "+r.name+" and relabelled)")
				}
			}
		}
		// wrong key sizes and types
		for _, ks := range []int{0, 1, 8, 15, 16, 17, 24, 32, 33} {
			c.xdecrypt(xKey{kind: "b", bytes: c.randBytes(ks)}, []xLayer{{alg: sp(d.uri), cipher: "v", ct: c.randBytes(3 * d.bs)}}, nil, "keysize:"+d.name)
		}
		type namedBytes []byte
		for _, ok := range []interface{}{nil, "a string key", c.key("ec256").Key, 42, c.key("sp").Cert,
			// slices that are not byte slices, a named byte-slice type, arrays, pointers: "keys of the wrong type"
			[]uint16{1, 2, 3}, []int{}, []string{"k"}, [][]byte{{1, 2}}, []interface{}{1}, namedBytes(c.randBytes(16)), [16]byte{}, &[]byte{1}, map[string]int{}, struct{}{}} {
			c.xdecrypt(xKey{kind: "o", other: ok}, []xLayer{{alg: sp(d.uri), cipher: "v", ct: c.randBytes(3 * d.bs)}}, nil, "keytype:"+d.name)
		}
		c.xdecrypt(xKey{kind: "r", id: 1}, []xLayer{{alg: sp(d.uri), cipher: "v", ct: c.randBytes(3 * d.bs)}}, nil, "keytype:"+d.name)
	}
	// GCM tampering: flip each byte of a valid value
	{
		key, nonce, p := c.randBytes(16), c.randBytes(12), c.randBytes(21)
		blk, _ := aes.NewCipher(key)
		g, _ := cipher.NewGCM(blk)
		ct := append(append([]byte{}, nonce...), g.Seal(nil, nonce, p, nil)...)
		for i := 0; i < len(ct); i++ {
			t := append([]byte{}, ct...)
			t[i] ^= byte(1 + c.rng.Intn(255))
			el := []xLayer{{alg: sp(uriGCM), cipher: "v", ct: t}}
			c.xdecrypt(xKey{kind: "b", bytes: key}, el, nil, "gcm-tamper")
		}
		// every proper prefix (a shortened tag is a modification like any other), and every extension by a few bytes
		for n := 0; n < len(ct); n++ {
			c.xdecrypt(xKey{kind: "b", bytes: key}, []xLayer{{alg: sp(uriGCM), cipher: "v", ct: ct[:n]}}, nil, "gcm-truncated")
		}
		for n := 1; n <= 4; n++ {
			c.xdecrypt(xKey{kind: "b", bytes: key}, []xLayer{{alg: sp(uriGCM), cipher: "v", ct: append(append([]byte{}, ct...), c.randBytes(n)...)}}, nil, "gcm-extended")
		}
		// the same for the shortest messages (empty and one-byte plaintext): the tag is all there is
		for _, pl := range []int{0, 1, 16} {
			p2 := c.randBytes(pl)
			ct2 := append(append([]byte{}, nonce...), g.Seal(nil, nonce, p2, nil)...)
			for n := len(ct2) - 16; n < len(ct2); n++ {
				if n >= 0 {
					c.xdecrypt(xKey{kind: "b", bytes: key}, []xLayer{{alg: sp(uriGCM), cipher: "v", ct: ct2[:n]}}, nil, "gcm-truncated")
				}
			}
		}
	}
	// structure-aware mutation of valid two-layer elements
	// the embedded certificate under every way of writing the XML-Signature namespace × every kind of certificate, on an
	// otherwise valid message: only a matching (or absent) certificate may lead to a plaintext
	for _, pfx := range []string{"ds", "dsig", "x", "none"} {
		for _, cert := range []string{"", "match", "mismatch", "garbage", "ecdsa", "samemod-e3", "samemod-e17"} {
			for _, kt := range []string{uriOAEP, uriPKCS} {
				ck := c.randBytes(16)
				p := []byte("<a>embedded certificate</a>")
				ct := refCBCEncrypt(ck, 16, c.randBytes(16), p)
				pub := c.key("sp").Cert.PublicKey.(*rsa.PublicKey)
				var wrapped []byte
				if kt == uriPKCS {
					wrapped, _ = rsa.EncryptPKCS1v15(&detReader{c: c}, pub, ck)
				} else {
					wrapped, _ = rsa.EncryptOAEP(sha1.New(), &detReader{c: c}, pub, ck, nil)
				}
				ls := []xLayer{{alg: sp(uriAES128), cipher: "v", ct: ct}, {alg: sp(kt), digest: sp(uriSHA1), cert: cert, cipher: "v", ct: wrapped}}
				if kt == uriPKCS {
					ls[1].digest = nil
				}
				c.kiPrefix = pfx
				c.count("c11-keyinfo-prefix", pfx+"/"+cert)
				c.xdecrypt(xKey{kind: "r", id: 1}, ls, nil, "keyinfo-prefix:"+pfx)
				// the same message presented again, and again right after a message that does match: a verdict is about the
				// message at hand, whatever was decrypted before
				if pfx == "ds" && cert != "" && cert != "match" {
					for rep := 0; rep < 2; rep++ {
						c.xdecrypt(xKey{kind: "r", id: 1}, ls, nil, "keyinfo-repeat:"+cert)
					}
					good := []xLayer{ls[0], ls[1]}
					good[1].cert = "match"
					c.xdecrypt(xKey{kind: "r", id: 1}, good, nil, "keyinfo-repeat:match")
					for rep := 0; rep < 3; rep++ {
						c.xdecrypt(xKey{kind: "r", id: 1}, ls, nil, "keyinfo-repeat-after-match:"+cert)
					}
				}
				c.kiPrefix = ""
			}
		}
	}
	// KeyInfo content that points elsewhere (RetrievalMethod with bare-name, XPointer, bracketed, quoted, empty, remote and
	// self-referring URIs; KeyName; KeyValue) on data that needs a key the caller did or did not supply: plaintext or an error
	for _, extra := range []string{"retrieval:#ek", "retrieval:#xpointer(id('ek'))", "retrieval:#ek[1]", "retrieval:#it's", "retrieval:#", "retrieval:", "retrieval:https://keys.example.org/k1",
		"retrieval:#a]b[", "retrieval:#//EncryptedKey", "keyname:sp key", "keyvalue"} {
		for _, alg := range []string{uriAES128, uriAES256, uri3DES, uriGCM} {
			bs, ks := 16, 16
			switch alg {
			case uriAES256:
				ks = 32
			case uri3DES:
				bs, ks = 8, 24
			}
			ck := c.randBytes(ks)
			p := []byte("<a>retrieval method</a>")
			var ct []byte
			if alg == uriGCM {
				blk, _ := aes.NewCipher(ck)
				g, _ := cipher.NewGCM(blk)
				nonce := c.randBytes(12)
				ct = append(append([]byte{}, nonce...), g.Seal(nil, nonce, p, nil)...)
			} else {
				ct = refCBCEncrypt(ck, bs, c.randBytes(bs), p)
			}
			for _, kk := range []xKey{{kind: "b", bytes: ck}, {kind: "r", id: 1}, {kind: "b", bytes: c.randBytes(ks)}} {
				c.kiExtra = extra
				c.count("c11-keyinfo-reference", strings.SplitN(extra, ":", 2)[0]+"/"+kk.kind)
				var expect []byte
				if kk.kind == "b" && bytes.Equal(kk.bytes, ck) {
					expect = p
				}
				c.xdecrypt(kk, []xLayer{{alg: sp(alg), cipher: "v", ct: ct}}, expect, "keyinfo-reference")
				c.kiExtra = ""
			}
		}
	}
	algs := []*string{nil, sp(""), sp("urn:unknown"), sp(uriAES128), sp(uriAES256), sp(uri3DES), sp(uriGCM), sp(uriOAEP), sp(uriOAEP11), sp(uriPKCS), sp("urn:verif:toy-cbc8"), sp("urn:verif:toy-cbc16")}
	dgs := []*string{nil, sp(uriSHA1), sp(uriSHA256), sp(uriSHA512), sp(uriRIPEMD), sp("urn:unknown-digest"), sp("")}
	certs := []string{"", "match", "mismatch", "garbage", "ecdsa", "samemod-e3", "samemod-e17"}
	n := 1500
	if !c.quick() {
		n = 40000
	}
	pub := &c.key("sp").RSA().PublicKey
	for i := 0; i < n; i++ {
		// start from a valid element: content key wrapped by RSA, data under AES/toy
		dataAlg := []string{uriAES128, uriAES256, uri3DES, "urn:verif:toy-cbc8", "urn:verif:toy-cbc16", uriGCM}[c.rng.Intn(6)]
		ks := map[string]int{uriAES128: 16, uriAES256: 32, uri3DES: 24, "urn:verif:toy-cbc8": 5, "urn:verif:toy-cbc16": 7, uriGCM: 16}[dataAlg]
		ck := c.randBytes(ks)
		p := c.randBytes(c.rng.Intn(40))
		var ct []byte
		switch dataAlg {
		case "urn:verif:toy-cbc8", "urn:verif:toy-cbc16":
			bs := 8
			if dataAlg == "urn:verif:toy-cbc16" {
				bs = 16
			}
			xmlenc.RandReader = &detReader{c: c}
			el, _ := xmlenc.VerifNewCBC(ks, dataAlg, bs).Encrypt(ck, p, nil)
			ct, _ = cipherValueOf(el)
		case uriGCM:
			blk, _ := aes.NewCipher(ck)
			g, _ := cipher.NewGCM(blk)
			nonce := c.randBytes(12)
			ct = append(nonce, g.Seal(nil, nonce, p, nil)...)
		case uri3DES:
			ct = refCBCEncrypt(ck, 8, c.randBytes(8), p)
		default:
			ct = refCBCEncrypt(ck, 16, c.randBytes(16), p)
		}
		dgURI := []string{uriSHA1, uriSHA256, uriSHA512, uriRIPEMD}[c.rng.Intn(4)]
		var wrapped []byte
		ktAlg := uriOAEP
		if c.chance(0.25) {
			ktAlg = uriPKCS
			wrapped, _ = rsa.EncryptPKCS1v15(&detReader{c: c}, pub, ck)
		} else {
			if c.chance(0.3) {
				ktAlg = uriOAEP11
			}
			wrapped, _ = rsa.EncryptOAEP(digestHash[dgURI](), &detReader{c: c}, pub, ck, nil)
		}
		ls := []xLayer{{alg: sp(dataAlg), cipher: "v", ct: ct}, {alg: sp(ktAlg), digest: sp(dgURI), cert: "match", cipher: "v", ct: wrapped}}
		expect := p
		// mutate 0..3 dimensions
		nm := c.rng.Intn(4)
		if nm > 0 {
			expect = nil
		}
		for m := 0; m < nm; m++ {
			li := c.rng.Intn(len(ls))
			switch c.rng.Intn(9) {
			case 0:
				ls[li].alg = algs[c.rng.Intn(len(algs))]
			case 1:
				ls[li].digest = dgs[c.rng.Intn(len(dgs))]
			case 2:
				ls[li].cert = certs[c.rng.Intn(len(certs))]
			case 3:
				ls[li].cipher = c.pick("a", "b")
			case 4:
				if len(ls[li].ct) > 0 {
					ls[li].ct = ls[li].ct[:c.rng.Intn(len(ls[li].ct))]
				}
			case 5:
				ls[li].ct = append(ls[li].ct, c.randBytes(1+c.rng.Intn(17))...)
			case 6: // nest one more key layer / repeat
				ls = append(ls, ls[len(ls)-1])
			case 7:
				ls = ls[:1]
			default:
				if len(ls[li].ct) > 0 {
					ls[li].ct[c.rng.Intn(len(ls[li].ct))] ^= 0x40
				}
			}
		}
		k := xKey{kind: "r", id: 1}
		if c.chance(0.12) {
			k = xKey{kind: "r", id: 2}
			expect = nil
		} else if c.chance(0.08) {
			k = xKey{kind: "b", bytes: ck}
			expect = nil
		} else if c.chance(0.04) {
			k = xKey{kind: "o", other: "str"}
			expect = nil
		}
		_ = expect
		c.xdecrypt(k, ls, nil, "mutated")
	}
}
