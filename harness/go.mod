module verifharness

go 1.22

require (
	github.com/anishathalye/porcupine v1.3.0
	github.com/beevik/etree v1.5.0
	github.com/crewjam/saml v0.0.0
	github.com/golang-jwt/jwt/v4 v4.5.2
	github.com/mattermost/xml-roundtrip-validator v0.1.0
	github.com/russellhaering/goxmldsig v1.4.0
	golang.org/x/crypto v0.33.0
	golang.org/x/net v0.34.0
)

require github.com/jonboulle/clockwork v0.2.2 // indirect

replace github.com/crewjam/saml => /repo
