package main

// Abstract descriptions of SAML responses (mirroring SamlVerif/Model/SPStruct.lean), their rendering
// to signed/encrypted XML with the repository's own types and goxmldsig, and their token encoding.

import (
	"crypto/tls"
	"crypto/x509"
	"encoding/base64"
	"fmt"
	"net/url"
	"strings"
	"time"

	"github.com/beevik/etree"
	"github.com/crewjam/saml"
	"github.com/crewjam/saml/xmlenc"
	dsig "github.com/russellhaering/goxmldsig"
)

const zeroTimeMs = int64(-62135596800000)

type SCd struct {
	IRT       string
	Recipient string
	NOA       int64 // ms; zeroTimeMs = attribute absent
}

type SConf struct {
	Data   *SCd
	Method string // "" = bearer; the validator must treat every confirmation alike whatever its Method
}

type Cond struct {
	NB, NOA int64
	Auds    []string
}

type Assn struct {
	II           int64
	Issuer       *string // nil: element absent (unmarshals to "")
	IssuerFormat string  // Format attribute of the Issuer element ("" = absent); no check may depend on it
	Subject      *[]SConf
	Cond         *Cond
	Ident        string
	Sig          string // none | idp | idp2 | attacker
	Wrap         string // p | e | b
}

type Resp struct {
	Dest, IRT    string
	II           int64
	Issuer       *string
	IssuerFormat string
	Status       string
	StatusNested []string // StatusCode elements nested below the top-level one (must not matter)
	StatusShape  string   // "" | "absent" (no Status element) | "empty" (<Status/>) | "novalue" (StatusCode without Value): all read as the empty status (set Status = "")
	Entries      []Assn
	Sig          string
	Foreign      []string // look-alike children that are *not* SAML assertions (foreign / empty namespace): must be ignored
}

type SPCfg struct {
	IDPEntity, Acs, EntityID, MetadataURL string
	AllowIDP                              bool
	ReqV, AudV                            string // n | t | f
	Delay, Skew                           int64  // ms
	Success                               string
	Trust                                 []string // key names trusted as IdP signing certs
}

func sp(s string) *string { return &s }

func (a *Assn) issuerStr() string {
	if a.Issuer == nil {
		return ""
	}
	return *a.Issuer
}

// ---- token encoding ----

func (c SPCfg) toks() []string {
	return []string{encStr(c.IDPEntity), encStr(c.Acs), encStr(c.EntityID), encStr(c.MetadataURL), encBool(c.AllowIDP),
		c.ReqV, c.AudV, encInt(c.Delay), encInt(c.Skew), encStr(c.Success)}
}

func (a Assn) toks(cfg SPCfg) []string {
	wrapTok := a.Wrap
	if strings.HasPrefix(wrapTok, "b") {
		wrapTok = "b" // every flavour of undecryptable ciphertext is one thing for the model
	}
	if strings.HasPrefix(wrapTok, "e") {
		wrapTok = "e" // and every way of writing a decryptable one
	}
	t := []string{wrapTok, sigState(a.Sig, cfg), encInt(a.II), encStr(a.issuerStr())}
	if a.Subject == nil {
		t = append(t, "-")
	} else {
		t = append(t, "+", fmt.Sprint(len(*a.Subject)))
		for _, sc := range *a.Subject {
			if sc.Data == nil {
				t = append(t, "-")
			} else {
				t = append(t, "+", encStr(sc.Data.IRT), encStr(sc.Data.Recipient), encInt(sc.Data.NOA))
			}
		}
	}
	if a.Cond == nil {
		t = append(t, "-")
	} else {
		t = append(t, "+", encInt(a.Cond.NB), encInt(a.Cond.NOA))
		t = append(t, encStrList(a.Cond.Auds)...)
	}
	t = append(t, encStr(a.Ident))
	return t
}

func (r Resp) toks(cfg SPCfg) []string {
	t := []string{encStr(r.Dest), encStr(r.IRT), encInt(r.II)}
	t = append(t, encOptStr(r.Issuer)...)
	t = append(t, encStr(r.Status), fmt.Sprint(len(r.Entries)))
	for _, e := range r.Entries {
		t = append(t, e.toks(cfg)...)
	}
	return t
}

// sigState is what validateSignature is expected to say, by construction of the case.
func sigState(sig string, cfg SPCfg) string {
	if sig == "none" {
		return "a"
	}
	for _, t := range cfg.Trust {
		if t == sig {
			return "v"
		}
	}
	return "i"
}

// ---- rendering ----

// lexical forms of one millisecond instant that RelaxedTime must read as the same instant
func lexTime(tms int64, style int) string {
	t := time.UnixMilli(tms).UTC()
	switch style % 6 {
	case 0:
		return t.Format("2006-01-02T15:04:05.999Z07:00")
	case 1:
		return t.Format("2006-01-02T15:04:05.000Z07:00")
	case 2:
		return t.Format("2006-01-02T15:04:05.000000Z07:00")
	case 3:
		return t.In(time.FixedZone("", 2*3600+1800)).Format("2006-01-02T15:04:05.000Z07:00")
	case 4:
		return t.In(time.FixedZone("", -11*3600)).Format("2006-01-02T15:04:05.000000000Z07:00")
	default:
		return t.Format("2006-01-02T15:04:05.000") // no zone: third layout, read as UTC
	}
}

type builder struct {
	c        *Ctx
	lexStyle int
	spCert   *x509.Certificate
	badCert  *x509.Certificate
}

func (b *builder) signCtx(keyName string, method string) *dsig.SigningContext {
	k := b.c.key(keyName)
	ks := dsig.TLSCertKeyStore(tls.Certificate{Certificate: [][]byte{k.Cert.Raw}, PrivateKey: k.Key, Leaf: k.Cert})
	ctx := dsig.NewDefaultSigningContext(ks)
	ctx.Canonicalizer = dsig.MakeC14N10ExclusiveCanonicalizerWithPrefixList("")
	if method == "" {
		method = dsig.RSASHA256SignatureMethod
	}
	must(ctx.SetSignatureMethod(method))
	return ctx
}

func setTimeAttr(el *etree.Element, name string, tms int64, style int) {
	if tms == zeroTimeMs {
		el.RemoveAttr(name)
		return
	}
	el.CreateAttr(name, lexTime(tms, style))
}

func (b *builder) assertionEl(a Assn, n int) *etree.Element {
	as := saml.Assertion{
		ID:           fmt.Sprintf("id-a%d-%d", b.c.n, n),
		IssueInstant: time.UnixMilli(a.II).UTC(),
		Version:      "2.0",
		Issuer:       saml.Issuer{Value: a.issuerStr(), Format: a.IssuerFormat},
		AttributeStatements: []saml.AttributeStatement{{Attributes: []saml.Attribute{{
			Name: "ident", Values: []saml.AttributeValue{{Type: "xs:string", Value: a.Ident}}}}}},
	}
	if a.Subject != nil {
		subj := &saml.Subject{NameID: &saml.NameID{Value: a.Ident}}
		for _, sc := range *a.Subject {
			x := saml.SubjectConfirmation{Method: "urn:oasis:names:tc:SAML:2.0:cm:bearer"}
			if sc.Method != "" {
				x.Method = sc.Method
				if sc.Method == "absent" {
					x.Method = ""
				}
			}
			if sc.Data != nil {
				x.SubjectConfirmationData = &saml.SubjectConfirmationData{InResponseTo: sc.Data.IRT, Recipient: sc.Data.Recipient,
					NotOnOrAfter: time.UnixMilli(sc.Data.NOA).UTC()}
			}
			subj.SubjectConfirmations = append(subj.SubjectConfirmations, x)
		}
		as.Subject = subj
	}
	if a.Cond != nil {
		cd := &saml.Conditions{NotBefore: time.UnixMilli(a.Cond.NB).UTC(), NotOnOrAfter: time.UnixMilli(a.Cond.NOA).UTC()}
		for _, au := range a.Cond.Auds {
			cd.AudienceRestrictions = append(cd.AudienceRestrictions, saml.AudienceRestriction{Audience: saml.Audience{Value: au}})
		}
		as.Conditions = cd
	}
	el := as.Element()
	// lexical forms and absent parts the struct cannot express
	setTimeAttr(el, "IssueInstant", a.II, b.lexStyle)
	if a.Issuer == nil {
		if ie := el.SelectElement("Issuer"); ie != nil {
			el.RemoveChild(ie)
		}
	}
	if a.Cond != nil {
		ce := el.SelectElement("Conditions")
		setTimeAttr(ce, "NotBefore", a.Cond.NB, b.lexStyle+1)
		setTimeAttr(ce, "NotOnOrAfter", a.Cond.NOA, b.lexStyle+2)
	}
	if a.Subject != nil {
		i := 0
		for _, sce := range el.SelectElement("Subject").SelectElements("SubjectConfirmation") {
			sc := (*a.Subject)[i]
			i++
			if sc.Data != nil {
				setTimeAttr(sce.SelectElement("SubjectConfirmationData"), "NotOnOrAfter", sc.Data.NOA, b.lexStyle+3+i)
			}
		}
	}
	if a.Sig != "none" {
		signed, err := b.signCtx(a.Sig, "").SignEnveloped(el)
		must(err)
		el = signed
	}
	switch a.Wrap {
	case "b-3des-pad09", "b-3des-pad10", "b-3des-pad12", "b-3des-pad16", "b-3des-pad08", "b-3des-pad00":
		// tripledes-cbc, exactly IV + one block, the IV chosen so that the last decrypted byte (the padding length) is NN:
		// no key needed — the last plaintext byte is D(C)[7] xor IV[7], and a 3-byte plaintext is padded with 05
		enc := xmlenc.OAEP()
		enc.BlockCipher = xmlenc.TripleDES
		enc.DigestMethod = &xmlenc.SHA1
		ed, err := enc.Encrypt(b.spCert, []byte("abc"), nil)
		must(err)
		ed.CreateAttr("Type", "http://www.w3.org/2001/04/xmlenc#Element")
		if cd := ed.SelectElement("CipherData"); cd != nil {
			if cv := cd.SelectElement("CipherValue"); cv != nil {
				raw, _ := base64.StdEncoding.DecodeString(cv.Text())
				var v int
				fmt.Sscanf(a.Wrap[len("b-3des-pad"):], "%d", &v)
				if len(raw) == 16 {
					raw[7] ^= 5 ^ byte(v)
				}
				cv.SetText(base64.StdEncoding.EncodeToString(raw))
			}
		}
		ea := etree.NewElement("saml:EncryptedAssertion")
		ea.AddChild(ed)
		return ea
	case "e", "e-nodigest", "e-pkcs15", "b", "b-spkey", "b-empty", "b-blank", "b-ivonly", "b-truncated", "b-flipped", "b-nokey", "b-noroot-empty", "b-noroot-space", "b-noroot-comment", "b-noroot-pi", "b-key-empty", "b-key-truncated":
		doc := etree.NewDocument()
		doc.SetRoot(el)
		buf, err := doc.WriteToBytes()
		must(err)
		// a correctly encrypted plaintext that holds no element at all (anyone can encrypt to the SP's certificate)
		switch a.Wrap {
		case "b-noroot-empty":
			buf = []byte{}
		case "b-noroot-space":
			buf = []byte("  \n ")
		case "b-noroot-comment":
			buf = []byte("<!-- no assertion here -->")
		case "b-noroot-pi":
			buf = []byte("<?xml version=\"1.0\" encoding=\"UTF-8\"?>\n")
		}
		cert := b.spCert
		if a.Wrap == "b" {
			cert = b.badCert
		}
		enc := xmlenc.OAEP()
		enc.BlockCipher = xmlenc.AES128CBC
		enc.DigestMethod = &xmlenc.SHA1
		if a.Wrap == "e-pkcs15" {
			// rsa-1_5 key transport: its EncryptionMethod never carries a DigestMethod
			enc = xmlenc.PKCS1v15()
			enc.BlockCipher = xmlenc.AES128CBC
		}
		ed, err := enc.Encrypt(cert, buf, nil)
		must(err)
		ed.CreateAttr("Type", "http://www.w3.org/2001/04/xmlenc#Element")
		if a.Wrap == "e-nodigest" {
			// rsa-oaep-mgf1p relying on its default digest (SHA-1): the optional DigestMethod element left out
			if dm := ed.FindElement(".//EncryptedKey/EncryptionMethod/DigestMethod"); dm != nil {
				dm.Parent().RemoveChild(dm)
			}
		}
		// malformed content ciphertext under an intact, correctly wrapped key: the content CipherValue is the one directly
		// below EncryptedData/CipherData (the other one, below KeyInfo/EncryptedKey, is the wrapped key); "-key" flavours
		// damage the wrapped key's value instead
		var cvs []*etree.Element
		if cd := ed.SelectElement("CipherData"); cd != nil {
			if cv := cd.SelectElement("CipherValue"); cv != nil {
				cvs = append(cvs, cv)
			}
		}
		if len(cvs) > 0 && strings.HasPrefix(a.Wrap, "b-") && !strings.HasPrefix(a.Wrap, "b-noroot") {
			cv := cvs[len(cvs)-1]
			raw, _ := base64.StdEncoding.DecodeString(cv.Text())
			switch a.Wrap {
			case "b-empty":
				cv.SetText("")
			case "b-blank":
				cv.SetText("  \n ")
			case "b-ivonly":
				cv.SetText(base64.StdEncoding.EncodeToString(raw[:16]))
			case "b-truncated":
				cv.SetText(base64.StdEncoding.EncodeToString(raw[:len(raw)-7]))
			case "b-flipped":
				raw[len(raw)-1] ^= 0x55
				raw[len(raw)-17] ^= 0x55
				cv.SetText(base64.StdEncoding.EncodeToString(raw))
			case "b-nokey":
				if ek := ed.FindElement(".//EncryptedKey"); ek != nil {
					ek.Parent().RemoveChild(ek)
				}
			case "b-key-empty", "b-key-truncated":
				if ek := ed.FindElement(".//EncryptedKey"); ek != nil {
					if kcv := ek.FindElement("./CipherData/CipherValue"); kcv != nil {
						kraw, _ := base64.StdEncoding.DecodeString(kcv.Text())
						if a.Wrap == "b-key-empty" {
							kcv.SetText("")
						} else {
							kcv.SetText(base64.StdEncoding.EncodeToString(kraw[:len(kraw)-9]))
						}
					}
				}
			}
		}
		ea := etree.NewElement("saml:EncryptedAssertion")
		ea.AddChild(ed)
		return ea
	}
	return el
}

func (b *builder) responseEl(r Resp) *etree.Element {
	rs := saml.Response{
		ID: fmt.Sprintf("id-r%d", b.c.n), InResponseTo: r.IRT, Version: "2.0", IssueInstant: time.UnixMilli(r.II).UTC(),
		Destination: r.Dest, Status: saml.Status{StatusCode: saml.StatusCode{Value: r.Status}},
	}
	if r.Issuer != nil {
		rs.Issuer = &saml.Issuer{Value: *r.Issuer, Format: r.IssuerFormat}
	}
	inner := &rs.Status.StatusCode
	for _, v := range r.StatusNested {
		inner.StatusCode = &saml.StatusCode{Value: v}
		inner = inner.StatusCode
	}
	el := rs.Element()
	if st := el.FindElement("./Status"); st != nil && r.StatusShape != "" {
		switch r.StatusShape {
		case "absent":
			el.RemoveChild(st)
		case "empty":
			for _, ch := range st.ChildElements() {
				st.RemoveChild(ch)
			}
		case "novalue":
			if sc := st.FindElement("./StatusCode"); sc != nil {
				sc.RemoveAttr("Value")
			}
		}
	}
	setTimeAttr(el, "IssueInstant", r.II, b.lexStyle+4)
	for i, a := range r.Entries {
		el.AddChild(b.assertionEl(a, i))
	}
	for _, f := range r.Foreign {
		var fe *etree.Element
		switch f {
		case "assn-defaultns":
			fe = etree.NewElement("Assertion")
			fe.CreateAttr("xmlns", "urn:example:not-saml")
		case "assn-prefixed":
			fe = etree.NewElement("x:Assertion")
			fe.CreateAttr("xmlns:x", "urn:example:not-saml")
		case "assn-emptyns":
			fe = etree.NewElement("Assertion")
			fe.CreateAttr("xmlns", "")
		case "enc-defaultns":
			fe = etree.NewElement("EncryptedAssertion")
			fe.CreateAttr("xmlns", "urn:example:not-saml")
		case "enc-prefixed":
			fe = etree.NewElement("x:EncryptedAssertion")
			fe.CreateAttr("xmlns:x", "urn:oasis:names:tc:SAML:2.0:protocol")
		case "assn-protocolns":
			fe = etree.NewElement("samlp:Assertion")
			fe.CreateAttr("xmlns:samlp", "urn:oasis:names:tc:SAML:2.0:protocol")
		default:
			panic("unknown foreign child " + f)
		}
		fe.CreateAttr("ID", "id-foreign")
		el.AddChild(fe)
	}
	if r.Sig != "none" {
		signed, err := b.signCtx(r.Sig, "").SignEnveloped(el)
		must(err)
		el = signed
	}
	return el
}

func elBytes(el *etree.Element) []byte {
	doc := etree.NewDocument()
	doc.SetRoot(el)
	buf, err := doc.WriteToBytes()
	must(err)
	return buf
}

// ---- the real SP ----

func mustURL(s string) url.URL {
	u, err := url.Parse(s)
	must(err)
	return *u
}

func (c *Ctx) realSP(cfg SPCfg) *saml.ServiceProvider {
	spk := c.key("sp")
	var kds []saml.KeyDescriptor
	for _, t := range cfg.Trust {
		kds = append(kds, saml.KeyDescriptor{Use: "signing", KeyInfo: saml.KeyInfo{X509Data: saml.X509Data{
			X509Certificates: []saml.X509Certificate{{Data: base64.StdEncoding.EncodeToString(c.key(t).Cert.Raw)}}}}})
	}
	s := &saml.ServiceProvider{
		EntityID: cfg.EntityID, Key: spk.Key, Certificate: spk.Cert, MetadataURL: mustURL(cfg.MetadataURL), AcsURL: mustURL(cfg.Acs),
		AllowIDPInitiated: cfg.AllowIDP,
		IDPMetadata: &saml.EntityDescriptor{EntityID: cfg.IDPEntity, IDPSSODescriptors: []saml.IDPSSODescriptor{{
			SSODescriptor: saml.SSODescriptor{RoleDescriptor: saml.RoleDescriptor{KeyDescriptors: kds}}}}},
	}
	switch cfg.ReqV {
	case "t":
		s.ValidateRequestID = func(saml.Response, []string) error { return nil }
	case "f":
		s.ValidateRequestID = func(saml.Response, []string) error { return fmt.Errorf("custom request-id validator says no") }
	}
	switch cfg.AudV {
	case "t":
		s.ValidateAudienceRestriction = func(*saml.Assertion) error { return nil }
	case "f":
		s.ValidateAudienceRestriction = func(*saml.Assertion) error { return fmt.Errorf("custom audience validator says no") }
	}
	return s
}

// the zone of the host the SP runs on says nothing about a message: instants written without a zone are UTC (saml-core 1.3.3),
// so every case runs under one of several host zones, in rotation, and must come out the same
// (five entries: a period coprime to the six lexical styles, so every style meets every zone)
var hostZones = []*time.Location{time.UTC, time.FixedZone("verif-west", -5*3600), time.UTC, time.FixedZone("verif-east", 5*3600+1800), time.FixedZone("verif-west2", -11*3600)}
var hostZoneN int

func rotateHostZone() {
	hostZoneN++
	time.Local = hostZones[hostZoneN%len(hostZones)]
}

func setGlobals(cfg SPCfg, now int64) {
	rotateHostZone()
	saml.MaxIssueDelay = time.Duration(cfg.Delay) * time.Millisecond
	saml.MaxClockSkew = time.Duration(cfg.Skew) * time.Millisecond
	saml.StatusSuccess = cfg.Success
	t := time.UnixMilli(now).UTC()
	saml.TimeNow = func() time.Time { return t }
	saml.Clock = dsig.NewFakeClockAt(t)
}

func identOf(a *saml.Assertion) string {
	for _, st := range a.AttributeStatements {
		for _, at := range st.Attributes {
			if at.Name == "ident" && len(at.Values) > 0 {
				return at.Values[0].Value
			}
		}
	}
	return "?"
}

// canonical outcome of a response-parsing call
func canonParse(a *saml.Assertion, err error) string {
	if err == nil {
		if a == nil {
			return "ok-nil"
		}
		return "ok " + encStr(identOf(a))
	}
	ire, ok := err.(*saml.InvalidResponseError)
	if !ok {
		return "err-untyped " + pct(fmt.Sprintf("%T", err))
	}
	if a != nil {
		return "err-with-assertion"
	}
	if ire.Error() != "Authentication failed" {
		return "err-message " + pct(ire.Error())
	}
	if bs, ok := ire.PrivateErr.(saml.ErrBadStatus); ok {
		return "errstatus " + encStr(bs.Status)
	}
	return "err"
}

// ---- Go reading of the property (direct oracle; independent of the Lean model) ----

func contains(l []string, s string) bool {
	for _, x := range l {
		if x == s {
			return true
		}
	}
	return false
}

func firstSetStr(a, b string) string {
	if a == "" {
		return b
	}
	return a
}

func assnGood(cfg SPCfg, now int64, ids []string, need bool, a Assn) bool {
	if strings.HasPrefix(a.Wrap, "b") {
		return false
	}
	if need && sigState(a.Sig, cfg) != "v" {
		return false
	}
	if now > a.II+cfg.Delay || a.issuerStr() != cfg.IDPEntity {
		return false
	}
	if a.Subject == nil || a.Cond == nil {
		return false
	}
	for _, sc := range *a.Subject {
		if sc.Data == nil {
			return false
		}
		if !cfg.AllowIDP && !contains(ids, sc.Data.IRT) {
			return false
		}
		if sc.Data.Recipient != cfg.Acs || now > sc.Data.NOA+cfg.Skew {
			return false
		}
	}
	if a.Cond.NB-cfg.Skew > now || now > a.Cond.NOA+cfg.Skew {
		return false
	}
	switch cfg.AudV {
	case "t":
	case "f":
		return false
	default:
		if len(a.Cond.Auds) > 0 && !contains(a.Cond.Auds, firstSetStr(cfg.EntityID, cfg.MetadataURL)) {
			return false
		}
	}
	return true
}

// specParse returns the canonical outcome the property text prescribes.
func specParse(cfg SPCfg, now int64, ids []string, urlStr string, needReq bool, r Resp) string {
	rsig := sigState(r.Sig, cfg)
	if ((needReq && rsig != "a") || r.Dest != "") && r.Dest != urlStr && r.Dest != cfg.Acs {
		return "err"
	}
	switch cfg.ReqV {
	case "t":
	case "f":
		return "err"
	default:
		if !cfg.AllowIDP && !contains(ids, r.IRT) {
			return "err"
		}
	}
	if now > r.II+cfg.Delay {
		return "err"
	}
	if r.Issuer != nil && *r.Issuer != cfg.IDPEntity {
		return "err"
	}
	if r.Status != cfg.Success {
		return "errstatus " + encStr(r.Status)
	}
	need := needReq
	if needReq {
		if rsig == "i" {
			return "err"
		}
		if rsig == "v" {
			need = false
		}
	}
	for pass := 0; pass < 2; pass++ {
		for _, a := range r.Entries {
			isEnc := a.Wrap != "p"
			if (pass == 0) != isEnc {
				continue
			}
			if assnGood(cfg, now, ids, need, a) {
				return "ok " + encStr(a.Ident)
			}
		}
	}
	return "err"
}

func oracleCmp(spec, impl string) string {
	if spec == impl {
		return ""
	}
	return "property reading says " + spec + " but implementation returned " + impl
}

func joinToks(parts ...[]string) []string {
	var out []string
	for _, p := range parts {
		out = append(out, p...)
	}
	return out
}

var _ = strings.Join
