package main

import (
	"flag"
	"fmt"
	"os"
	"path/filepath"
)

var gens = map[string]func(*Ctx){}

func init() {
	gens["C02"] = (*Ctx).genC02
	gens["C03"] = (*Ctx).genC03
	gens["C04"] = (*Ctx).genC04
}

func main() {
	if len(os.Args) < 2 {
		fmt.Fprintln(os.Stderr, "usage: harness gen <prop> [--seed N] [--tier quick|thorough] [--out dir] [--keys dir]")
		os.Exit(2)
	}
	switch os.Args[1] {
	case "gen":
		fs := flag.NewFlagSet("gen", flag.ExitOnError)
		seed := fs.Int64("seed", 1, "PRNG seed")
		tier := fs.String("tier", "quick", "quick|thorough")
		out := fs.String("out", ".work", "output directory")
		exe, _ := os.Executable()
		keys := fs.String("keys", filepath.Join(filepath.Dir(exe), "..", "harness", "keys"), "key directory")
		replay := fs.String("replay", "", "replay file")
		prop := os.Args[2]
		must(fs.Parse(os.Args[3:]))
		g, ok := gens[prop]
		if !ok {
			fmt.Fprintln(os.Stderr, "no generator for", prop)
			os.Exit(2)
		}
		c := newCtx(prop, *tier, *seed, *out, *keys)
		c.replay = *replay
		g(c)
		c.close()
		fmt.Printf("generated %d cases for %s\n", c.n, prop)
	case "facts":
		facts(os.Args[2:])
	default:
		fmt.Fprintln(os.Stderr, "unknown command", os.Args[1])
		os.Exit(2)
	}
}
