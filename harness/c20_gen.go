package main

// C20: concurrency of samlidp. (1) the extracted lock programs against what the real handlers do to the store,
// (2) a scheduling Store that drives the real server along the model's deadlock witness, (3) recorded concurrent
// histories of the MemoryStore checked for linearizability with porcupine, (4) free-running stress (meaningful in the
// binary built with -race, which the orchestrator runs as a second step).

import (
	"strconv"
	"sync/atomic"
	"bytes"
	cryptorand "crypto/rand"
	"encoding/base64"
	"encoding/json"
	"fmt"
	"io"
	"net/http"
	"net/http/httptest"
	"net/url"
	"os"
	"sort"
	"strings"
	"sync"
	"time"

	"github.com/anishathalye/porcupine"
	"github.com/crewjam/saml"
	"github.com/crewjam/saml/logger"
	"github.com/crewjam/saml/samlidp"
)

func init() {
	gens["C20"] = (*Ctx).genC20
	gens["C20stress"] = (*Ctx).genC20stress
}

// recStore records the kind of every store call and can pause a chosen call
type recStore struct {
	inner samlidp.Store
	mu    sync.Mutex
	ops   []string
	pause func(op, key string)
}

func (r *recStore) rec(op, key string) {
	r.mu.Lock()
	r.ops = append(r.ops, op)
	p := r.pause
	r.mu.Unlock()
	if p != nil {
		p(op, key)
	}
}

func (r *recStore) Get(key string, v interface{}) error { r.rec("r", key); return r.inner.Get(key, v) }
func (r *recStore) Put(key string, v interface{}) error { r.rec("w", key); return r.inner.Put(key, v) }
func (r *recStore) Delete(key string) error             { r.rec("w", key); return r.inner.Delete(key) }
func (r *recStore) List(prefix string) ([]string, error) {
	r.rec("r", prefix)
	return r.inner.List(prefix)
}

func (c *Ctx) c20Server(st samlidp.Store) *samlidp.Server {
	k := c.key("idp")
	srv, err := samlidp.New(samlidp.Options{URL: mustURL(idpRoot), Key: k.Key, Certificate: k.Cert, Store: st, Logger: logger.DefaultLogger})
	must(err)
	return srv
}

func serve(srv *samlidp.Server, method, path string, body []byte, cookie string) int {
	req := httptest.NewRequest(method, path, bytes.NewReader(body))
	req.Host = "idp.example.com"
	if cookie != "" {
		req.AddCookie(&http.Cookie{Name: "session", Value: cookie})
	}
	rec := httptest.NewRecorder()
	srv.ServeHTTP(rec, req)
	return rec.Code
}

func (c *Ctx) seedStore(st samlidp.Store) {
	must(st.Put("/sessions/sess1", &saml.Session{ID: "sess1", NameID: "alice", UserName: "alice", ExpireTime: time.Now().Add(time.Hour)}))
	must(st.Put("/shortcuts/sc1", &samlidp.Shortcut{Name: "sc1", ServiceProviderID: "https://spa.example.com/md"}))
	must(st.Put("/users/alice", &samlidp.User{Name: "alice"}))
}

type hcase struct {
	prog, method, path string
	body               []byte
	cookie             string
	ctype              string
}

// gatedBody blocks the first Read until released: the request is then stalled wherever its handler first reads the body
type gatedBody struct {
	r       io.Reader
	gate    chan struct{}
	reached chan struct{}
	once    sync.Once
}

func (g *gatedBody) Read(p []byte) (int, error) {
	g.once.Do(func() {
		select {
		case g.reached <- struct{}{}:
		default:
		}
		<-g.gate
	})
	return g.r.Read(p)
}
func (g *gatedBody) Close() error { return nil }

func serveReq(srv *samlidp.Server, hc hcase, body io.Reader) int {
	req := httptest.NewRequest(hc.method, hc.path, body)
	req.Host = "idp.example.com"
	if hc.ctype != "" {
		req.Header.Set("Content-Type", hc.ctype)
	}
	if hc.cookie != "" {
		req.AddCookie(&http.Cookie{Name: "session", Value: hc.cookie})
	}
	rec := httptest.NewRecorder()
	srv.ServeHTTP(rec, req)
	return rec.Code
}

func (c *Ctx) genC20() {
	now := baseTime
	saml.TimeNow = func() time.Time { return now }
	saml.RandReader = &detReader{c: c}
	// (1) what each real handler does to the store is a subsequence of its extracted program
	userJSON, _ := json.Marshal(map[string]interface{}{"email": "a@example.com"})
	scJSON, _ := json.Marshal(map[string]interface{}{"service_provider": "https://spa.example.com/md"})
	md := spMetadataXML("https://spa.example.com/md", true)
	cases := []hcase{
		{"Server.HandlePutUser", "PUT", "/users/bob", userJSON, "", ""},
		{"Server.HandleGetUser", "GET", "/users/alice", nil, "", ""},
		{"Server.HandleDeleteUser", "DELETE", "/users/bob", nil, "", ""},
		{"Server.HandleListUsers", "GET", "/users/", nil, "", ""},
		{"Server.HandlePutService", "PUT", "/services/svc1", md, "", ""},
		{"Server.HandleGetService", "GET", "/services/svc1", nil, "", ""},
		{"Server.HandleListServices", "GET", "/services/", nil, "", ""},
		{"Server.HandlePutShortcut", "PUT", "/shortcuts/sc2", scJSON, "", ""},
		{"Server.HandleGetShortcut", "GET", "/shortcuts/sc1", nil, "", ""},
		{"Server.HandleListShortcuts", "GET", "/shortcuts/", nil, "", ""},
		{"Server.HandleDeleteShortcut", "DELETE", "/shortcuts/sc2", nil, "", ""},
		{"Server.HandleGetSession", "GET", "/sessions/sess1", nil, "", ""},
		{"Server.HandleListSessions", "GET", "/sessions/", nil, "", ""},
		{"Server.HandleLogin", "GET", "/login", nil, "sess1", ""},
		{"Server.HandleIDPInitiated", "GET", "/login/sc1", nil, "sess1", ""},
		{"handler /sso", "GET", "/sso?SAMLRequest=bm90IGRlZmxhdGU%3D", nil, "sess1", ""},
		{"handler GET /metadata", "GET", "/metadata", nil, "", ""},
		{"Server.HandleDeleteService", "DELETE", "/services/svc1", nil, "", ""},
		{"Server.HandleDeleteSession", "DELETE", "/sessions/sess1", nil, "", ""},
	}
	rs := &recStore{inner: &samlidp.MemoryStore{}}
	c.seedStore(rs.inner)
	srv := c.c20Server(rs)
	for _, hc := range cases {
		rs.mu.Lock()
		rs.ops = nil
		rs.mu.Unlock()
		code := serve(srv, hc.method, hc.path, hc.body, hc.cookie)
		rs.mu.Lock()
		obs := append([]string{}, rs.ops...)
		rs.mu.Unlock()
		c.count("c20-handler-status", fmt.Sprint(code))
		c.emit("lockprog", joinToks([]string{encStr(hc.prog)}, encStrListRaw(obs)), "ok", "")
	}
	// (2) the model's deadlock witness, replayed on the real server with a scheduling store
	c.deadlockSchedule()
	// (2b) the same schedule shape for every handler and every point at which it can be stalled
	c.stallSchedules(cases)
	// (3) linearizability of recorded concurrent store histories
	rounds := 40
	if !c.quick() {
		rounds = 600
	}
	c.linearizability(rounds)
	c.listSnapshots(5000)
	// (4) free-running stress runs in a separate process (the -race build): an unguarded map access can abort the whole
	// process with "concurrent map iteration and map write", which must not take the other results with it.
}

func encStrListRaw(l []string) []string {
	out := []string{fmt.Sprint(len(l))}
	for _, s := range l {
		out = append(out, encStr(s))
	}
	return out
}

// deadlockSchedule: request A (IdP-initiated launch) is paused inside its session lookup; request B (a service update,
// i.e. a registry writer) is started and given time to reach the registry lock; A is resumed and must still complete.
func (c *Ctx) deadlockSchedule() {
	for trial := 0; trial < 3; trial++ {
		rs := &recStore{inner: &samlidp.MemoryStore{}}
		c.seedStore(rs.inner)
		must(rs.inner.Put("/services/svc1", &samlidp.Service{Name: "svc1"}))
		srv := c.c20Server(rs)
		resume := make(chan struct{})
		reached := make(chan struct{}, 1)
		var once sync.Once
		rs.mu.Lock()
		rs.pause = func(op, key string) {
			if op == "r" && key == "/sessions/sess1" {
				once.Do(func() {
					reached <- struct{}{}
					<-resume
				})
			}
		}
		rs.mu.Unlock()
		doneA, doneB := make(chan int, 1), make(chan int, 1)
		go func() { doneA <- serve(srv, "GET", "/login/sc1", nil, "sess1") }()
		select {
		case <-reached:
		case <-time.After(2 * time.Second):
		}
		go func() {
			doneB <- serve(srv, "PUT", "/services/svc2", spMetadataXML(fmt.Sprintf("https://spz%d.example.com/md", trial), true), "")
		}()
		time.Sleep(150 * time.Millisecond) // let B reach (and, on a defective tree, queue at) the registry write lock
		close(resume)
		res := "completed"
		timeout := time.After(3 * time.Second)
		for i := 0; i < 2; i++ {
			select {
			case <-doneA:
			case <-doneB:
			case <-timeout:
				res = "deadlock"
				i = 2
			}
		}
		orc := ""
		if res == "deadlock" {
			orc = "key=deadlock:idp-initiated-vs-service-update requests did not complete within 3 s on the schedule: IdP-initiated launch paused in its session lookup, service update started, launch resumed"
		}
		c.count("c20-deadlock-schedule", res)
		c.emitOneWay("deadlock-schedule", nil, res, orc)
	}
}

// stallSchedules: every handler, stalled at every point where a client or the store can stall it (while it reads its
// request body; inside each of its store calls), a registry writer started meanwhile, the handler then resumed. Every
// request must complete — a reader that takes the registry lock twice, or a writer that keeps it across a store call
// another request is inside of, does not. This is the model's deadlock witness shape (C20_deadlock_free) made generic.
func (c *Ctx) stallSchedules(cases []hcase) {
	saml.RandReader = cryptorand.Reader // requests run concurrently here; only completion is observed
	defer func() { saml.RandReader = &detReader{c: c} }()
	// a well-formed AuthnRequest from a registered service, delivered by POST (the body is read after routing)
	iss := "https://spa.example.com/md"
	ii := baseTime.UnixMilli()
	v := "2.0"
	ar := areq{ID: "id-stall", Issuer: &iss, Destination: idpRoot + "/sso", Version: &v, II: &ii}
	form := url.Values{"SAMLRequest": {base64.StdEncoding.EncodeToString(ar.xml(0))}, "RelayState": {"rs"}}
	cases = append(append([]hcase{}, cases...),
		hcase{prog: "handler /sso", method: "POST", path: "/sso", body: []byte(form.Encode()), cookie: "sess1", ctype: "application/x-www-form-urlencoded"},
		hcase{prog: "handler /sso", method: "POST", path: "/sso", body: []byte(form.Encode()), cookie: "", ctype: "application/x-www-form-urlencoded"},
		hcase{prog: "Server.HandleLogin", method: "POST", path: "/login", body: []byte("user=alice&password=pw"), ctype: "application/x-www-form-urlencoded"})
	writers := []hcase{
		{prog: "Server.HandlePutService", method: "PUT", path: "/services/svcw", body: spMetadataXML("https://spw.example.com/md", true)},
		{prog: "Server.HandleDeleteService", method: "DELETE", path: "/services/svc1"},
	}
	type trial struct {
		h     hcase
		w     hcase
		point int // -1: the request body; k ≥ 0: the k-th store call of the handler
	}
	var trials []trial
	fresh := func() (*recStore, *samlidp.Server) {
		rs := &recStore{inner: &samlidp.MemoryStore{}}
		c.seedStore(rs.inner)
		srv := c.c20Server(rs)
		// registered through the server so that the registry map knows the service too
		serve(srv, "PUT", "/services/svc1", spMetadataXML("https://spa.example.com/md", true), "")
		return rs, srv
	}
	for _, h := range cases {
		rs, srv := fresh()
		rs.mu.Lock()
		rs.ops = nil
		rs.mu.Unlock()
		serveReq(srv, h, bytes.NewReader(h.body))
		rs.mu.Lock()
		n := len(rs.ops)
		rs.mu.Unlock()
		for _, w := range writers {
			if h.body != nil {
				trials = append(trials, trial{h, w, -1})
			}
			for k := 0; k < n; k++ {
				trials = append(trials, trial{h, w, k})
			}
		}
	}
	results := make([]string, len(trials))
	sem := make(chan struct{}, 16)
	var wg sync.WaitGroup
	for i, t := range trials {
		wg.Add(1)
		sem <- struct{}{}
		go func(i int, t trial) {
			defer wg.Done()
			defer func() { <-sem }()
			rs, srv := fresh()
			resume := make(chan struct{})
			reached := make(chan struct{}, 1)
			var body io.Reader = bytes.NewReader(t.h.body)
			if t.point < 0 {
				body = &gatedBody{r: bytes.NewReader(t.h.body), gate: resume, reached: reached}
			} else {
				var mu sync.Mutex
				seen, fired := 0, false
				rs.mu.Lock()
				rs.ops = nil
				rs.pause = func(op, key string) {
					mu.Lock()
					hit := !fired && seen == t.point
					seen++
					if hit {
						fired = true
					}
					mu.Unlock()
					if hit {
						reached <- struct{}{}
						<-resume
					}
				}
				rs.mu.Unlock()
			}
			doneA, doneB := make(chan int, 1), make(chan int, 1)
			go func() { doneA <- serveReq(srv, t.h, body) }()
			select {
			case <-reached:
			case <-time.After(2 * time.Second):
			}
			go func() { doneB <- serveReq(srv, t.w, bytes.NewReader(t.w.body)) }()
			time.Sleep(120 * time.Millisecond) // let the writer reach (and, on a defective tree, queue at) the registry lock
			close(resume)
			res := "completed"
			timeout := time.After(3 * time.Second)
			for k := 0; k < 2; k++ {
				select {
				case <-doneA:
				case <-doneB:
				case <-timeout:
					res = "deadlock"
					k = 2
				}
			}
			results[i] = res
		}(i, t)
	}
	wg.Wait()
	for i, t := range trials {
		at := "while its body is being read"
		if t.point >= 0 {
			at = fmt.Sprintf("inside its store call #%d", t.point)
		}
		orc := ""
		if results[i] == "deadlock" {
			orc = fmt.Sprintf("key=deadlock:stalled-handler-vs-registry-writer requests did not complete within 3 s on the schedule: %s %s stalled %s, %s %s started, the first resumed",
				t.h.method, t.h.path, at, t.w.method, t.w.path)
		}
		c.count("c20-stall-schedule", results[i])
		c.count("c20-stall-point", map[bool]string{true: "body", false: "store-call"}[t.point < 0])
		c.emitOneWay("stall-schedule", []string{encStr(t.h.method + " " + t.h.path), fmt.Sprint(t.point), encStr(t.w.method + " " + t.w.path)}, results[i], orc)
	}
}

// ---- linearizability ----

type kvIn struct {
	op, key, val string
}
type kvOut struct {
	val   string
	found bool
	keys  string
}

var kvModel = porcupine.Model{
	Init: func() interface{} { return map[string]string{} },
	Step: func(state, in, out interface{}) (bool, interface{}) {
		st := state.(map[string]string)
		i, o := in.(kvIn), out.(kvOut)
		switch i.op {
		case "get":
			v, ok := st[i.key]
			return ok == o.found && (!ok || v == o.val), state
		case "put":
			n := map[string]string{}
			for k, v := range st {
				n[k] = v
			}
			n[i.key] = i.val
			return true, n
		case "delete":
			n := map[string]string{}
			for k, v := range st {
				if k != i.key {
					n[k] = v
				}
			}
			return true, n
		default: // list
			var ks []string
			for k := range st {
				ks = append(ks, k)
			}
			sort.Strings(ks)
			return strings.Join(ks, ",") == o.keys, state
		}
	},
	Equal: func(a, b interface{}) bool {
		x, y := a.(map[string]string), b.(map[string]string)
		if len(x) != len(y) {
			return false
		}
		for k, v := range x {
			if y[k] != v {
				return false
			}
		}
		return true
	},
}

func (c *Ctx) linearizability(rounds int) {
	bad := 0
	for r := 0; r < rounds; r++ {
		st := &samlidp.MemoryStore{}
		var mu sync.Mutex
		var ops []porcupine.Operation
		var wg sync.WaitGroup
		clients := 2 + c.rng.Intn(3)
		seeds := make([]int64, clients)
		for i := range seeds {
			seeds[i] = c.rng.Int63()
		}
		start := time.Now()
		for cl := 0; cl < clients; cl++ {
			wg.Add(1)
			go func(cl int) {
				defer wg.Done()
				rng := newRand(seeds[cl])
				for k := 0; k < 6; k++ {
					in := kvIn{op: []string{"get", "put", "delete", "list", "put", "get"}[rng.Intn(6)], key: []string{"/k/a", "/k/b", "/k/c"}[rng.Intn(3)], val: fmt.Sprintf("v%d-%d", cl, k)}
					var out kvOut
					call := time.Since(start).Nanoseconds()
					switch in.op {
					case "get":
						var v string
						err := st.Get(in.key, &v)
						out = kvOut{val: v, found: err == nil}
					case "put":
						_ = st.Put(in.key, in.val)
					case "delete":
						_ = st.Delete(in.key)
					default:
						l, _ := st.List("/k/")
						for i := range l {
							l[i] = "/k/" + l[i]
						}
						sort.Strings(l)
						out = kvOut{keys: strings.Join(l, ",")}
					}
					ret := time.Since(start).Nanoseconds()
					mu.Lock()
					ops = append(ops, porcupine.Operation{ClientId: cl, Input: in, Call: call, Output: out, Return: ret})
					mu.Unlock()
				}
			}(cl)
		}
		wg.Wait()
		if !porcupine.CheckOperations(kvModel, ops) {
			bad++
		}
	}
	orc := ""
	if bad > 0 {
		orc = fmt.Sprintf("key=store-not-linearizable %d of %d recorded concurrent histories of the MemoryStore are not linearizable w.r.t. a key-value map", bad, rounds)
	}
	c.count("c20-linearizability-rounds", fmt.Sprint(rounds))
	c.emitOneWay("linearizability", nil, fmt.Sprintf("checked %d", rounds), orc)
}

// listSnapshots: a List that overlaps a run of *ordered* mutations must still show a state the map was in at one instant.
// One writer deletes keys k0000 < k0001 < … in key order (then a second store: inserts them in key order) while readers List
// continuously: every linearizable result is a suffix set under the deletions (a prefix set under the insertions); a result
// with a hole is a history no key-value map can explain — decided per result, no search needed.
func (c *Ctx) listSnapshots(n int) {
	key := func(i int) string { return fmt.Sprintf("/k/%05d", i) }
	badDel, badIns, overlapped := 0, 0, 0
	example := ""
	for _, mode := range []string{"delete", "insert"} {
		st := &samlidp.MemoryStore{}
		if mode == "delete" {
			for i := 0; i < n; i++ {
				_ = st.Put(key(i), i)
			}
		}
		var done int32
		var wg sync.WaitGroup
		wg.Add(1)
		go func() {
			defer wg.Done()
			for i := 0; i < n; i++ {
				if mode == "delete" {
					_ = st.Delete(key(i))
				} else {
					_ = st.Put(key(i), i)
				}
			}
			atomic.StoreInt32(&done, 1)
		}()
		for r := 0; r < 3; r++ {
			wg.Add(1)
			go func() {
				defer wg.Done()
				for atomic.LoadInt32(&done) == 0 {
					l, _ := st.List("/k/")
					if len(l) == 0 || len(l) == n {
						continue
					}
					sort.Strings(l)
					lo, _ := strconv.Atoi(l[0])
					hi, _ := strconv.Atoi(l[len(l)-1])
					ok := hi-lo+1 == len(l) && ((mode == "delete" && hi == n-1) || (mode == "insert" && lo == 0))
					mu20.Lock()
					overlapped++
					if !ok {
						if mode == "delete" {
							badDel++
						} else {
							badIns++
						}
						if example == "" {
							example = fmt.Sprintf("%s: %d keys listed, smallest %s, largest %s of %d", mode, len(l), l[0], l[len(l)-1], n)
						}
					}
					mu20.Unlock()
				}
			}()
		}
		wg.Wait()
	}
	orc := ""
	if badDel+badIns > 0 {
		orc = fmt.Sprintf("key=store-list-not-a-snapshot %d List results concurrent with ordered deletions and %d concurrent with ordered insertions show a key set the store never held (%s)", badDel, badIns, example)
	}
	c.count("c20-list-snapshot-overlapping-lists", map[bool]string{true: "some", false: "none"}[overlapped > 0])
	c.emitOneWay("listsnapshots", nil, fmt.Sprintf("checked %d", n), orc)
}

var mu20 sync.Mutex

// ---- stress ----

func (c *Ctx) stress(d time.Duration) {
	saml.RandReader = cryptorand.Reader
	st := &samlidp.MemoryStore{}
	c.seedStore(st)
	srv := c.c20Server(st)
	md := spMetadataXML("https://spa.example.com/md", true)
	userJSON, _ := json.Marshal(map[string]interface{}{"email": "a@example.com"})
	reqs := []struct {
		m, p string
		b    []byte
		ck   string
	}{
		{"GET", "/users/", nil, ""}, {"PUT", "/users/u1", userJSON, ""}, {"GET", "/users/u1", nil, ""}, {"DELETE", "/users/u1", nil, ""},
		{"PUT", "/services/svc1", md, ""}, {"PUT", "/services/svc1", spMetadataXML("https://spb.example.com/md", true), ""}, {"GET", "/services/", nil, ""}, {"DELETE", "/services/svc1", nil, ""}, {"GET", "/services/svc1", nil, ""},
		{"GET", "/login/sc1", nil, "sess1"}, {"GET", "/login", nil, "sess1"}, {"GET", "/sessions/", nil, ""}, {"GET", "/metadata", nil, ""},
		{"GET", "/sso?SAMLRequest=bm90IGRlZmxhdGU%3D", nil, "sess1"}, {"GET", "/shortcuts/", nil, ""},
	}
	var wg sync.WaitGroup
	stop := time.Now().Add(d)
	completed := make([]int, 4)
	for g := 0; g < 4; g++ {
		wg.Add(1)
		seed := c.rng.Int63()
		go func(g int) {
			defer wg.Done()
			rng := newRand(seed)
			for time.Now().Before(stop) {
				r := reqs[rng.Intn(len(reqs))]
				serve(srv, r.m, r.p, r.b, r.ck)
				completed[g]++
			}
		}(g)
	}
	done := make(chan struct{})
	go func() { wg.Wait(); close(done) }()
	res, orc := "completed", ""
	select {
	case <-done:
	case <-time.After(d + 5*time.Second):
		res = "hung"
		orc = "key=deadlock:stress concurrent requests did not all complete"
	}
	total := 0
	for _, n := range completed {
		total += n
	}
	c.count("c20-stress-requests", fmt.Sprint(total/1000*1000))
	c.emitOneWay("stress", nil, res, orc)
}

// genC20stress is what the -race binary runs
func (c *Ctx) genC20stress() {
	now := baseTime
	saml.TimeNow = func() time.Time { return now }
	d := 4 * time.Second
	if !c.quick() {
		d = 20 * time.Second
	}
	c.stress(d)
	c.linearizability(20)
	c.listSnapshots(20000)
	fmt.Fprintln(os.Stderr, "stress finished")
}
