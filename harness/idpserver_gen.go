package main

// C19: histories against the real samlidp.Server over a fault-injecting store, compared request by request with the
// Lean state machine.

import (
	"bytes"
	"encoding/base64"
	"encoding/json"
	"encoding/xml"
	"errors"
	"fmt"
	"net/http"
	"net/http/httptest"
	"net/url"
	"sort"
	"strings"
	"time"

	"github.com/beevik/etree"
	"github.com/crewjam/saml"
	"github.com/crewjam/saml/logger"
	"github.com/crewjam/saml/samlidp"
)

func init() { gens["C19"] = (*Ctx).genC19 }

type faultStore struct {
	inner  samlidp.Store
	faults []string // consumed one per call; empty = ok
	calls  int
}

func (f *faultStore) next() string {
	f.calls++
	if len(f.faults) == 0 {
		return "k"
	}
	x := f.faults[0]
	f.faults = f.faults[1:]
	return x
}

var errIO = errors.New("injected I/O error")

func (f *faultStore) Get(key string, value interface{}) error {
	switch f.next() {
	case "n":
		return samlidp.ErrNotFound
	case "e":
		return errIO
	}
	return f.inner.Get(key, value)
}

func (f *faultStore) Put(key string, value interface{}) error {
	if f.next() != "k" {
		return errIO
	}
	return f.inner.Put(key, value)
}

func (f *faultStore) Delete(key string) error {
	if f.next() != "k" {
		return errIO
	}
	return f.inner.Delete(key)
}

func (f *faultStore) List(prefix string) ([]string, error) {
	if f.next() != "k" {
		return nil, errIO
	}
	return f.inner.List(prefix)
}

// countingWriter detects more than one status line per request
type countingWriter struct {
	*httptest.ResponseRecorder
	headers int
}

func (w *countingWriter) WriteHeader(code int) {
	w.headers++
	w.ResponseRecorder.WriteHeader(code)
}

type idpWorld struct {
	c          *Ctx
	shortcutSP map[string]string // shortcut name -> entity ID it was last stored with (absent: unknown)
	store      *faultStore
	srv        *samlidp.Server
	now        time.Time
	sids       map[string]string // real session id -> label
	sps        map[string]*saml.ServiceProvider
	toks       []string
	impl       []string
	orc        []string
	stored     map[string]string // service name -> entity ID currently stored (harness's own bookkeeping for the oracle)
	n          int
	// passwords: every password ever set for a user (sound under any fault pattern), and the current one while no fault has been injected
	everPw  map[string]map[string]bool
	curPw   map[string]*string
	faulted bool
	// where each stored entity's assertion consumer service is *now* (the metadata of the last successful PUT), and the form action of the last SAML reply
	acsOf      map[string]string
	lastAction string
	acsVersion int
	// the profile (e-mail, name, groups) each user is stored with now (absent: unknown, e.g. after a faulted PUT)
	curProfile map[string]string
}

const idpRoot = "https://idp.example.com"

func (c *Ctx) newIdpWorld() *idpWorld {
	w := &idpWorld{c: c, store: &faultStore{inner: &samlidp.MemoryStore{}}, now: baseTime, sids: map[string]string{}, sps: map[string]*saml.ServiceProvider{}, stored: map[string]string{}, everPw: map[string]map[string]bool{}, curPw: map[string]*string{}, acsOf: map[string]string{}, curProfile: map[string]string{}}
	w.setClock()
	w.newServer()
	return w
}

func (w *idpWorld) setClock() {
	now := w.now
	saml.TimeNow = func() time.Time { return now }
	saml.MaxIssueDelay = 90 * time.Second
}

func (w *idpWorld) newServer() {
	k := w.c.key("idp")
	srv, err := samlidp.New(samlidp.Options{URL: mustURL(idpRoot), Key: k.Key, Certificate: k.Cert, Store: w.store, Logger: logger.DefaultLogger})
	must(err)
	w.srv = srv
}

func (w *idpWorld) spFor(entity string) *saml.ServiceProvider {
	if s, ok := w.sps[entity]; ok {
		// the SP asks for its responses at the endpoint it has registered
		if loc, ok := w.acsOf[entity]; ok {
			s.AcsURL = mustURL(loc)
		}
		return s
	}
	k := w.c.key("sp")
	idpMD := w.srv.IDP.Metadata()
	s := &saml.ServiceProvider{EntityID: entity, Key: k.Key, Certificate: k.Cert, MetadataURL: mustURL(entity), AcsURL: mustURL(entity + "/acs"), IDPMetadata: idpMD}
	if loc, ok := w.acsOf[entity]; ok {
		s.AcsURL = mustURL(loc)
	}
	w.sps[entity] = s
	return s
}

// metadata XML of an SP without encryption certificate (so the assertion is readable), optionally without a POST ACS
func spMetadataXML(entity string, postACS bool) []byte {
	return spMetadataXMLAt(entity, postACS, entity+"/acs")
}

// spMetadataXMLAt: the same service with its assertion consumer service at `loc` (a service that moves its endpoint re-registers)
func spMetadataXMLAt(entity string, postACS bool, loc string) []byte {
	b := saml.HTTPPostBinding
	if !postACS {
		b = saml.HTTPRedirectBinding
	}
	return []byte(`<EntityDescriptor xmlns="urn:oasis:names:tc:SAML:2.0:metadata" entityID="` + entity + `"><SPSSODescriptor protocolSupportEnumeration="urn:oasis:names:tc:SAML:2.0:protocol">` +
		`<AssertionConsumerService Binding="` + b + `" Location="` + loc + `" index="1"/></SPSSODescriptor></EntityDescriptor>`)
}

func (w *idpWorld) label(sid string) string {
	if l, ok := w.sids[sid]; ok {
		return l
	}
	return sid
}

type idpReq struct {
	toks          []string
	method        string
	path          string
	body          []byte
	ctype         string
	cookie        string
	faults        []string
	expectSAMLFor string
}

func faultToks(fs []string) []string { return append([]string{fmt.Sprint(len(fs))}, fs...) }

func profileOf(email, cn string, groups []string) string {
	return email + ";" + cn + ";" + strings.Join(groups, ",")
}

// canonical reply of the real server
func (w *idpWorld) canon(rec *countingWriter, kind string) string {
	setc := "-"
	for _, ck := range rec.Result().Cookies() {
		if ck.Name == "session" && ck.Value != "" {
			if _, ok := w.sids[ck.Value]; !ok {
				w.sids[ck.Value] = fmt.Sprintf("s%d", len(w.sids))
				sidBorn[ck.Value] = w.now
			}
			setc = w.sids[ck.Value]
		}
	}
	body := rec.Body.Bytes()
	code := rec.Code
	b := "empty"
	switch {
	case code >= 300 || len(bytes.TrimSpace(body)) == 0:
	case bytes.Contains(body, []byte(`name="SAMLResponse"`)):
		u, p, e, rl := w.readSAMLForm(body)
		b = "saml:" + pct(u+"|"+p+"|"+e+"|"+rl)
	case bytes.Contains(body, []byte(`name="password"`)):
		b = "loginForm"
	case kind == "getService":
		var ed saml.EntityDescriptor
		if xml.Unmarshal(body, &ed) == nil {
			b = "md:" + pct(ed.EntityID)
		}
	default:
		var m map[string]interface{}
		if json.Unmarshal(body, &m) == nil {
			switch {
			case m["users"] != nil || m["sessions"] != nil || m["services"] != nil || m["shortcuts"] != nil:
				var names []string
				for _, k := range []string{"users", "sessions", "services", "shortcuts"} {
					if l, ok := m[k].([]interface{}); ok {
						for _, x := range l {
							names = append(names, w.label(fmt.Sprint(x)))
						}
					}
				}
				sort.Strings(names)
				b = "names:" + pct(strings.Join(names, ","))
			case m["ID"] != nil: // saml.Session
				var gs []string
				if l, ok := m["Groups"].([]interface{}); ok {
					for _, x := range l {
						gs = append(gs, fmt.Sprint(x))
					}
				}
				b = "session:" + pct(w.label(fmt.Sprint(m["ID"]))+"|"+fmt.Sprint(m["UserName"])+"|"+profileOf(fmt.Sprint(m["UserEmail"]), fmt.Sprint(m["UserCommonName"]), gs))
			case m["service_provider"] != nil:
				b = "shortcut:" + pct(fmt.Sprint(m["service_provider"]))
			case m["name"] != nil:
				var gs []string
				if l, ok := m["groups"].([]interface{}); ok {
					for _, x := range l {
						gs = append(gs, fmt.Sprint(x))
					}
				}
				em, _ := m["email"].(string)
				cn, _ := m["common_name"].(string)
				b = "user:" + pct(fmt.Sprint(m["name"])+"|"+profileOf(em, cn, gs))
			}
		}
	}
	return fmt.Sprintf("%d/%s/%s", code, b, setc)
}

func (w *idpWorld) readSAMLForm(body []byte) (user, profile, entity, relay string) {
	o, err := observeForm(body)
	if err != nil {
		return
	}
	relay, _ = inputVal(o, "RelayState")
	w.lastAction = o.action
	v, _ := inputVal(o, "SAMLResponse")
	x, err := base64.StdEncoding.DecodeString(v)
	if err != nil {
		return
	}
	doc := etree.NewDocument()
	if doc.ReadFromBytes(x) != nil || doc.Root() == nil {
		return
	}
	if a := doc.Root().FindElement("//Audience"); a != nil {
		entity = a.Text()
	}
	get := func(friendly string) []string {
		var out []string
		for _, at := range doc.Root().FindElements("//Attribute") {
			if at.SelectAttrValue("FriendlyName", "") == friendly {
				for _, v := range at.SelectElements("AttributeValue") {
					out = append(out, v.Text())
				}
			}
		}
		return out
	}
	first := func(l []string) string {
		if len(l) > 0 {
			return l[0]
		}
		return ""
	}
	user = first(get("uid"))
	profile = profileOf(first(get("mail")), first(get("cn")), get("eduPersonAffiliation"))
	return
}

// do runs one request against the real server and records the abstract request + canonical reply
func (w *idpWorld) do(r idpReq, kind string) string {
	w.setClock()
	saml.RandReader = &detReader{c: w.c}
	w.store.faults = append([]string{}, r.faults...)
	var body *bytes.Reader = bytes.NewReader(r.body)
	req := httptest.NewRequest(r.method, r.path, body)
	req.Host = "idp.example.com"
	if r.ctype != "" {
		req.Header.Set("Content-Type", r.ctype)
	}
	if r.cookie != "" {
		req.AddCookie(&http.Cookie{Name: "session", Value: r.cookie})
	}
	rec := &countingWriter{ResponseRecorder: httptest.NewRecorder()}
	res := safely(func() string {
		w.srv.ServeHTTP(rec, req)
		return w.canon(rec, kind)
	})
	w.store.faults = nil
	w.toks = append(w.toks, r.toks...)
	w.toks = append(w.toks, faultToks(r.faults)...)
	w.impl = append(w.impl, res)
	w.n++
	if strings.HasPrefix(res, "panic") {
		w.orc = append(w.orc, fmt.Sprintf("key=idpserver-panic step %d (%s) panicked: %s", w.n, kind, res))
	}
	if rec.headers > 1 {
		w.orc = append(w.orc, fmt.Sprintf("key=idpserver-two-replies step %d (%s) wrote %d status lines", w.n, kind, rec.headers))
	}
	// one well-formed reply: an error status carries an error text and nothing else; a page is one HTML document
	if bs := rec.Body.String(); (rec.Code >= 400 && (strings.Contains(bs, "<form") || strings.Contains(bs, "<html"))) || strings.Count(bs, "<html") > 1 || strings.Count(bs, "</html>") > 1 {
		w.orc = append(w.orc, fmt.Sprintf("key=idpserver-two-replies step %d (%s): status %d with a body that holds more than one reply (%d bytes: an error text and a page, or two pages)", w.n, kind, rec.Code, len(bs)))
	}
	if strings.Contains(rec.Body.String(), "hashed_password") || strings.Contains(rec.Body.String(), "$2a$") {
		w.orc = append(w.orc, fmt.Sprintf("key=idpserver-hash-disclosed step %d (%s) discloses a password hash", w.n, kind))
	}
	return res
}

func (w *idpWorld) flush() {
	toks := append([]string{fmt.Sprint(w.n)}, w.toks...)
	w.c.units += w.n
	w.c.emit("idphist", toks, strings.Join(w.impl, " "), strings.Join(w.orc, " | "))
}

func optTok(s *string) []string { return encOptStr(s) }

// ---- the request alphabet ----

func (w *idpWorld) putUser(name, email, cn string, groups []string, pw *string, faults []string) {
	m := map[string]interface{}{"email": email, "common_name": cn, "groups": groups}
	if pw != nil {
		m["password"] = *pw
	}
	// the record is the one the URL names; a name inside the body (another user's, the same, or an unknown one) is not
	switch w.c.rng.Intn(6) {
	case 0:
		m["name"] = []string{"alice", "bob", "carol", "mallory"}[w.c.rng.Intn(4)]
		w.c.count("c19-putuser-body-name", "other-or-same")
	case 1:
		m["name"] = name
		w.c.count("c19-putuser-body-name", "same")
	default:
		w.c.count("c19-putuser-body-name", "absent")
	}
	b, _ := json.Marshal(m)
	if pw != nil {
		if w.everPw[name] == nil {
			w.everPw[name] = map[string]bool{}
		}
		w.everPw[name][*pw] = true // recorded before the call: a failed PUT may still have stored it
	}
	if len(faults) > 0 {
		w.faulted = true
	}
	res := w.do(idpReq{toks: joinToks([]string{"putUser", encStr(name), encStr(profileOf(email, cn, groups))}, optTok(pw)), method: "PUT", path: "/users/" + name, body: b, faults: faults}, "putUser")
	if strings.HasPrefix(res, "2") && pw != nil {
		p := *pw
		w.curPw[name] = &p
	}
	if strings.HasPrefix(res, "2") && len(faults) == 0 {
		w.curProfile[name] = profileOf(email, cn, groups)
	} else if len(faults) > 0 {
		delete(w.curProfile, name)
	}
}

// deleteUser: after a successful DELETE the account has no current password (a later PUT without one creates an account nobody can log in to)
func (w *idpWorld) deleteUser(name string, faults []string) {
	if len(faults) > 0 {
		w.faulted = true
	}
	res := w.simple("deleteUser", "DELETE", "/users/"+name, []string{encStr(name)}, faults)
	if strings.HasPrefix(res, "2") {
		delete(w.curPw, name)
	}
}

// checkAuthn: a reply that establishes a session from form credentials requires that user's password
func (w *idpWorld) checkAuthn(res, user, pw string, hasCred bool, sid string) {
	if !hasCred || sid != "" {
		return
	}
	parts := strings.Split(res, "/")
	newSession := len(parts) >= 3 && parts[len(parts)-1] != "-"
	issued := strings.Contains(res, "/saml:")
	if !newSession && !issued {
		return
	}
	if !w.everPw[user][pw] {
		w.orc = append(w.orc, fmt.Sprintf("key=authn-without-password step %d: user %q was logged in with a password (%q) that was never set for that user", w.n, user, pw))
	} else if !w.faulted && (w.curPw[user] == nil || *w.curPw[user] != pw) {
		w.orc = append(w.orc, fmt.Sprintf("key=authn-stale-password step %d: user %q was logged in with a password that is not the current one", w.n, user))
	}
}

func (w *idpWorld) simple(op, method, path string, args []string, faults []string) string {
	return w.do(idpReq{toks: append([]string{op}, args...), method: method, path: path, faults: faults}, op)
}

func (w *idpWorld) putService(id, entity string, postACS bool, bad bool, faults []string) {
	// every third registration moves the service's endpoint: what counts is the metadata registered at the moment of the request
	// (only when no store fault is injected: a faulted PUT re-sends the location registered last, so that "what is registered now"
	// stays unambiguous whether or not the write took effect)
	loc := entity + "/acs"
	if cur, ok := w.acsOf[entity]; ok {
		loc = cur
	}
	if len(faults) == 0 && !bad {
		if w.acsVersion++; w.acsVersion%3 == 0 {
			loc = fmt.Sprintf("%s/acs-v%d", entity, w.acsVersion)
		}
	}
	w.putServiceAt(id, entity, postACS, bad, faults, loc)
}

func (w *idpWorld) putServiceAt(id, entity string, postACS bool, bad bool, faults []string, loc string) {
	body := spMetadataXMLAt(entity, postACS, loc)
	toks := []string{"putService", encStr(id), "+", encStr(entity), encBool(postACS), encStr(entity)}
	if bad {
		body = []byte("<EntityDescriptor><unclosed>")
		toks = []string{"putService", encStr(id), "-"}
	}
	res := w.do(idpReq{toks: toks, method: "PUT", path: "/services/" + id, body: body, faults: faults}, "putService")
	if strings.HasPrefix(res, "204") {
		w.stored[id] = entity
		w.acsOf[entity] = loc
	}
}

func (w *idpWorld) deleteService(id string, faults []string) {
	res := w.simple("deleteService", "DELETE", "/services/"+id, []string{encStr(id)}, faults)
	if strings.HasPrefix(res, "204") {
		delete(w.stored, id)
	}
}

func (w *idpWorld) putShortcut(name, spID string, relay *string, suffix bool, bad bool, faults []string) {
	m := map[string]interface{}{"service_provider": spID, "url_suffix_as_relay_state": suffix}
	if relay != nil {
		m["relay_state"] = *relay
	}
	b, _ := json.Marshal(m)
	toks := joinToks([]string{"putShortcut", encStr(name), "+", encStr(spID)}, optTok(relay), []string{encBool(suffix)})
	if bad {
		b = []byte("{not json")
		toks = []string{"putShortcut", encStr(name), "-"}
	}
	res := w.do(idpReq{toks: toks, method: "PUT", path: "/shortcuts/" + name, body: b, faults: faults}, "putShortcut")
	if strings.HasPrefix(res, "2") && !bad {
		if w.shortcutSP == nil {
			w.shortcutSP = map[string]string{}
		}
		w.shortcutSP[name] = spID
	} else if len(faults) > 0 || bad {
		delete(w.shortcutSP, name) // unknown after a failed write
	}
}

func credToks(user, pw string, has bool) []string {
	if !has {
		return []string{"-"}
	}
	return []string{"+", encStr(user), encStr(pw)}
}

func (w *idpWorld) cookieTok(sid string) []string {
	if sid == "" {
		return []string{"-"}
	}
	return []string{"+", encStr(w.label(sid))}
}

func (w *idpWorld) login(user, pw string, hasCred bool, sid string, faults []string) string {
	toks := joinToks([]string{"login"}, credToks(user, pw, hasCred), w.cookieTok(sid))
	r := idpReq{toks: toks, method: "GET", path: "/login", cookie: sid, faults: faults}
	if hasCred {
		r.method, r.ctype = "POST", "application/x-www-form-urlencoded"
		r.body = []byte(url.Values{"user": {user}, "password": {pw}}.Encode())
	}
	if len(faults) > 0 {
		w.faulted = true
	}
	res := w.do(r, "login")
	w.checkAuthn(res, user, pw, hasCred, sid)
	return res
}

func (w *idpWorld) sso(entity string, valid bool, user, pw string, hasCred bool, sid string, relay string, faults []string) string {
	s := w.spFor(entity)
	saml.RandReader = &detReader{c: w.c}
	w.setClock()
	if !valid { // a stale request
		t := w.now.Add(-10 * time.Minute)
		saml.TimeNow = func() time.Time { return t }
	}
	s.IDPMetadata = w.srv.IDP.Metadata()
	ar, err := s.MakeAuthenticationRequest(idpRoot+"/sso", saml.HTTPRedirectBinding, saml.HTTPPostBinding)
	must(err)
	w.setClock()
	toks := joinToks([]string{"sso", encStr(entity), encBool(valid)}, credToks(user, pw, hasCred), w.cookieTok(sid), []string{encStr(relay)})
	r := idpReq{toks: toks, cookie: sid, faults: faults}
	if hasCred {
		r.method, r.path, r.ctype = "POST", "/sso", "application/x-www-form-urlencoded"
		r.body = []byte(url.Values{"user": {user}, "password": {pw}, "SAMLRequest": {base64.StdEncoding.EncodeToString(elBytes(ar.Element()))}, "RelayState": {relay}}.Encode())
	} else {
		u, err := ar.Redirect(relay, s)
		must(err)
		r.method, r.path = "GET", "/sso?"+u.RawQuery
	}
	if len(faults) > 0 {
		w.faulted = true
	}
	res := w.do(r, "sso")
	w.checkUnexpired(res, sid, hasCred)
	w.checkSAML(res, entity)
	w.checkAuthn(res, user, pw, hasCred, sid)
	// "the assertion describes the user as stored at login": form credentials of <user> yield an assertion about <user>
	if i := strings.Index(res, "/saml:"); i >= 0 && hasCred && sid == "" {
		payload, _ := url.PathUnescape(strings.SplitN(res[i+6:], "/", 2)[0])
		if got := strings.SplitN(payload, "|", 2)[0]; got != user {
			w.orc = append(w.orc, fmt.Sprintf("key=assertion-describes-other-user step %d: logging in as %q produced an assertion whose uid is %q", w.n, user, got))
		}
	}
	// credentials presented are a login, whatever cookie comes along: the assertion describes the user as stored now
	if i := strings.Index(res, "/saml:"); i >= 0 && hasCred && !w.faulted {
		payload, _ := url.PathUnescape(strings.SplitN(res[i+6:], "/", 2)[0])
		parts := strings.Split(payload, "|")
		if want, ok := w.curProfile[user]; ok && len(parts) >= 2 && parts[0] == user && parts[1] != want {
			w.orc = append(w.orc, fmt.Sprintf("key=assertion-describes-stale-user step %d: %q logged in with the current password and the assertion carries the profile %q, stored now: %q", w.n, user, parts[1], want))
		}
	}
	return res
}

func (w *idpWorld) shortcut(name, suffix, sid string, faults []string) string {
	path := "/login/" + name
	if suffix != "" {
		path += "/" + suffix
	}
	toks := joinToks([]string{"shortcut", encStr(name), encStr(suffix)}, w.cookieTok(sid))
	res := w.do(idpReq{toks: toks, method: "GET", path: path, cookie: sid, faults: faults}, "shortcut")
	w.checkUnexpired(res, sid, false)
	w.checkSAML(res, w.shortcutSP[name])
	return res
}

// when each session cookie was first handed out (sessions of the bundled server last one hour)
var sidBorn = map[string]time.Time{}

// direct oracle: "the cookie of a stored, unexpired session" — a request that carries only a cookie gets an assertion (or the
// session shown) only within the session's lifetime
func (w *idpWorld) checkUnexpired(res, sid string, hasCred bool) {
	born, ok := sidBorn[sid]
	if hasCred || !ok || !(strings.Contains(res, "/saml:") || strings.Contains(res, "/session:")) {
		return
	}
	if w.now.After(born.Add(time.Hour)) {
		w.orc = append(w.orc, fmt.Sprintf("key=expired-session-honoured step %d: the cookie of a session created %s ago (lifetime one hour) still obtained %s", w.n, w.now.Sub(born), strings.SplitN(res, "/", 3)[1]))
	}
}

// direct oracle: an assertion goes only to an SP that is stored (registered) at that moment
func (w *idpWorld) checkSAML(res, requested string) {
	if !strings.Contains(res, "/saml:") {
		return
	}
	i := strings.Index(res, "/saml:")
	payload, _ := url.PathUnescape(strings.SplitN(res[i+6:], "/", 2)[0])
	parts := strings.Split(payload, "|")
	if len(parts) < 4 {
		return
	}
	entity := parts[2]
	registered := false
	for _, e := range w.stored {
		registered = registered || e == entity
	}
	if !registered {
		w.orc = append(w.orc, fmt.Sprintf("key=stale-registry step %d: a SAML response was issued towards %s, which is not the entity ID of any service stored at that moment", w.n, entity))
	}
	// … at the assertion consumer service that entity has registered *now*
	if loc, ok := w.acsOf[entity]; ok && registered && !w.faulted && w.lastAction != "" && w.lastAction != loc {
		w.orc = append(w.orc, fmt.Sprintf("key=stale-registry-endpoint step %d: the SAML response for %s is posted to %s, but the service's registered assertion consumer service is %s", w.n, entity, w.lastAction, loc))
	}
	// … and towards the service the request was for, not another registered one
	if requested != "" && entity != requested {
		w.orc = append(w.orc, fmt.Sprintf("key=assertion-for-other-service step %d: the request was for %s, the SAML response is addressed to %s", w.n, requested, entity))
	}
}

// dupEntityRestart: the point the registry theorems exclude (two service names, one entity ID), run on the real server.
// After PUT a(E), PUT b(E), DELETE a the store still holds b with E; the running server and a server re-created over
// the same store are asked whether E is registered. (Metadata identical for a and b, so iteration order plays no part.)
func (c *Ctx) dupEntityRestart() {
	st := &samlidp.MemoryStore{}
	srv := c.c20Server(st)
	E := "https://dup.example.com/md"
	codes := []int{serve(srv, "PUT", "/services/a", spMetadataXML(E, true), ""), serve(srv, "PUT", "/services/b", spMetadataXML(E, true), ""), serve(srv, "DELETE", "/services/a", nil, "")}
	r := httptest.NewRequest("GET", "/", nil)
	reg := func(s *samlidp.Server) string {
		if _, err := s.GetServiceProvider(r, E); err != nil {
			return "unregistered"
		}
		return "registered"
	}
	orig, again := reg(srv), reg(c.c20Server(st))
	impl := fmt.Sprintf("%v original=%s restarted=%s", codes, orig, again)
	orc := ""
	if orig != again {
		orc = "key=c19-duplicate-entity-restart after PUT /services/a (entity E), PUT /services/b (entity E), DELETE /services/a the running server reports E " + orig + " and a server re-created over the same store reports it " + again
	}
	c.count("c19-duplicate-entity-restart", orig+"/"+again)
	c.emitOneWay("duprestart", nil, strings.ReplaceAll(impl, " ", "_"), orc)
}

// passwordClasses: "only for a user who presented that user's current password" at the edges of what bcrypt tells apart —
// it keys on the first 72 bytes of password+NUL, repeated, so a NUL inside a password or bytes beyond the 72nd make
// different strings verify against one hash. Whatever the server accepts as a password at PUT, a different string must
// not log in. (Direct calls on a fresh server; the model's bcrypt is symbolic on NUL-free passwords of at most 72 bytes.)
func (c *Ctx) passwordClasses() {
	st := &samlidp.MemoryStore{}
	srv := c.c20Server(st)
	put := func(user, pw string) int {
		b, _ := json.Marshal(map[string]interface{}{"email": user + "@example.com", "password": pw})
		return serve(srv, "PUT", "/users/"+user, b, "")
	}
	login := func(user, pw string) bool {
		r := httptest.NewRequest("POST", "/login", strings.NewReader(url.Values{"user": {user}, "password": {pw}}.Encode()))
		r.Header.Set("Content-Type", "application/x-www-form-urlencoded")
		w := httptest.NewRecorder()
		srv.ServeHTTP(w, r)
		for _, ck := range w.Result().Cookies() {
			if ck.Name == "session" && ck.Value != "" {
				return true
			}
		}
		return false
	}
	k72 := strings.Repeat("k", 72)
	var why []string
	cases := []struct {
		user, set string
		others    []string
	}{
		{"dora", "pw-d", []string{"pw-d\x00", "pw-d\x00pw-d", "pw-d\x00anything", "pw-d\x00pw-d\x00pw-d"}},
		{"erin", k72, []string{k72 + "x", k72 + "\x00", k72 + k72}},
		{"fay", k72 + "y", []string{k72 + "z", k72, k72 + "yy"}},
		{"gil", "a\x00b", []string{"a", "a\x00", "a\x00b\x00a\x00b", "a\x00c"}},
		{"hal", strings.Repeat("h", 71), []string{strings.Repeat("h", 71) + "\x00", strings.Repeat("h", 71) + "\x00junk"}},
	}
	res := safely(func() string {
		for _, k := range cases {
			code := put(k.user, k.set)
			accepted := code >= 200 && code < 300
			if accepted && !login(k.user, k.set) {
				why = append(why, fmt.Sprintf("PUT /users/%s accepted a %d-byte password that then does not log in", k.user, len(k.set)))
			}
			if !accepted && login(k.user, k.set) {
				why = append(why, fmt.Sprintf("PUT /users/%s refused the password (%d) and yet it logs in", k.user, code))
			}
			for _, o := range k.others {
				if login(k.user, o) {
					why = append(why, fmt.Sprintf("user %s has the password %q (PUT answered %d); the different string %q logs in", k.user, k.set, code, o))
				}
			}
		}
		return "done"
	})
	orc := ""
	if strings.HasPrefix(res, "panic") {
		orc = "key=c19-password-classes-panic " + res
	} else if len(why) > 0 {
		orc = "key=c19-bcrypt-equivalence " + strings.Join(why, "; ")
	}
	c.emitOneWay("pwclasses", nil, res, orc)
}

// registryMoveHistory: a service re-registers under the same name and entity ID with its endpoint moved; requests after that
// are answered at the new endpoint (shortcut and SP-initiated), also after a restart, and again after it moves back.
// (Expects user alice / pw-a and service svc1 = entities[0] to be there.)
func (w *idpWorld) registryMoveHistory(entities []string) {
	c := w.c
	_ = c
	// a service re-registers under the same name and entity ID with its endpoint moved; requests after that are
	// answered at the new endpoint (shortcut and SP-initiated), also after a restart, and again after it moves back
	w.putShortcut("sc1", entities[0], nil, false, false, nil)
	first := w.login("alice", "pw-a", true, "", nil)
	sid0 := ""
	for sid, l := range w.sids {
		if strings.HasSuffix(first, "/"+l) {
			sid0 = sid
		}
	}
	for _, loc := range []string{entities[0] + "/acs-moved", entities[0] + "/acs", entities[0] + "/acs-moved-again"} {
		w.putServiceAt("svc1", entities[0], true, false, nil, loc)
		w.shortcut("sc1", "", sid0, nil)
		w.sso(entities[0], true, "", "", false, sid0, "rs", nil)
	}
	w.store.faults = nil
	w.newServer()
	w.toks = append(w.toks, "restart", "0")
	w.impl = append(w.impl, "0/empty/-")
	w.n++
	w.shortcut("sc1", "", sid0, nil)
	// several providers in the store when the server starts: each issuer is still resolved against its own metadata
	// (requests that name no endpoint, and the shortcuts)
	w.putService("svc2", entities[1], true, false, nil)
	w.putService("svc3", entities[2], true, false, nil)
	w.putShortcut("sc2", entities[1], nil, false, false, nil)
	w.putShortcut("sc3", entities[2], nil, false, false, nil)
	for round := 0; round < 2; round++ {
		w.store.faults = nil
		w.newServer()
		w.toks = append(w.toks, "restart", "0")
		w.impl = append(w.impl, "0/empty/-")
		w.n++
		for _, e := range entities {
			w.sso(e, true, "", "", false, sid0, "rs", nil)
		}
		w.shortcut("sc1", "", sid0, nil)
		w.shortcut("sc2", "", sid0, nil)
		w.shortcut("sc3", "", sid0, nil)
	}
}

func (c *Ctx) genC19() {
	c.dupEntityRestart()
	c.passwordClasses()
	histories := 10
	steps := 45
	if !c.quick() {
		histories, steps = 120, 120
	}
	entities := []string{"https://spa.example.com/md", "https://spb.example.com/md", "https://spc.example.com/md"}
	users := []string{"alice", "bob", "carol"}
	pws := []string{"pw-a", "pw-b", "wrong", "", "pw-a\x00pw-a", strings.Repeat("k", 73)} // (the last two: strings bcrypt cannot tell apart from others - refused at PUT and at login)
	// the empty string is a password like any other: present in the body, stored, required at login
	for h := 0; h < histories; h++ {
		w := c.newIdpWorld()
		var sids []string
		pwBudget := 14 // bcrypt at DefaultCost is ~60 ms per hash/compare
		faults := func() []string {
			if c.chance(0.8) {
				return nil
			}
			var fs []string
			for i := 1 + c.rng.Intn(2); i > 0; i-- {
				fs = append(fs, c.pick("k", "e", "e", "n"))
			}
			return fs
		}
		// a useful prefix
		pw := pws[0]
		w.putUser("alice", "alice@example.com", "Alice A", []string{"staff", "admin"}, &pw, nil)
		w.putService("svc1", entities[0], true, false, nil)
		if h == 0 {
			// password replacement, the empty password included: after each PUT only the password of that PUT logs in
			empty, pb := "", "pw-b"
			w.putUser("alice", "alice@example.com", "Alice A", []string{"staff"}, &empty, nil)
			w.login("alice", "pw-a", true, "", nil)
			w.login("alice", "", true, "", nil)
			w.putUser("bob", "bob@example.com", "Bob", nil, &empty, nil)
			w.login("bob", "", true, "", nil)
			w.putUser("alice", "alice@example.com", "Alice A", []string{"staff"}, &pb, nil)
			w.login("alice", "", true, "", nil)
			w.login("alice", "pw-b", true, "", nil)
			w.putUser("alice", "alice@example.com", "Alice A", []string{"staff"}, nil, nil) // no password in the body: the stored one stays
			w.login("alice", "pw-b", true, "", nil)
			pwBudget -= 6
		}
		if h == 5 {
			// a user logs in, is changed (groups, e-mail, password), and logs in again with the current password while the
			// browser still sends the cookie of the earlier login: a login is a login — the assertion describes the user as stored now
			first := w.login("alice", "pw-a", true, "", nil)
			sid0 := ""
			for sid, l := range w.sids {
				if strings.HasSuffix(first, "/"+l) {
					sid0 = sid
				}
			}
			pb := "pw-b"
			w.putUser("alice", "alice@new.example.com", "Alice Renamed", []string{"guests"}, &pb, nil)
			w.login("alice", "pw-b", true, sid0, nil)
			w.sso(entities[0], true, "alice", "pw-b", true, sid0, "rs", nil)
			w.sso(entities[0], true, "alice", "pw-a", true, sid0, "rs", nil)
			w.sso(entities[0], true, "", "", false, sid0, "rs", nil)
			w.putUser("alice", "alice@newer.example.com", "Alice Again", nil, nil, nil)
			w.sso(entities[0], true, "alice", "pw-b", true, sid0, "rs", nil)
			pwBudget -= 5
		}
		if h == 4 {
			// a store that fails at each single step of a request that arrives with a session cookie (and with a forged one):
			// one reply per request, whatever fails — the session read, the user read, the shortcut read
			w.putShortcut("sc1", entities[0], nil, false, false, nil)
			first := w.login("alice", "pw-a", true, "", nil)
			sid0 := ""
			for sid, l := range w.sids {
				if strings.HasSuffix(first, "/"+l) {
					sid0 = sid
				}
			}
			for _, sid := range []string{sid0, "forged-session-id"} {
				for _, fs := range [][]string{{"e"}, {"k", "e"}, {"k", "k", "e"}, {"n"}, {"k", "n"}, {"e", "e"}} {
					w.shortcut("sc1", "", sid, fs)
					w.sso(entities[0], true, "", "", false, sid, "rs", fs)
					w.login("", "", false, sid, fs)
				}
			}
			pwBudget -= 1
		}
		if h == 3 {
			w.registryMoveHistory(entities)
			pwBudget -= 1
		}
		if h == 2 {
			// an account deleted and created again (without a password, then with another one): what the deleted account's
			// password opened stays closed, before and after a restart
			pb := "pw-b"
			w.login("alice", "pw-a", true, "", nil)
			w.deleteUser("alice", nil)
			w.login("alice", "pw-a", true, "", nil)
			w.putUser("alice", "alice2@example.com", "Alice Again", []string{"guests"}, nil, nil)
			w.login("alice", "pw-a", true, "", nil)
			w.store.faults = nil
			w.newServer()
			w.toks = append(w.toks, "restart", "0")
			w.impl = append(w.impl, "0/empty/-")
			w.n++
			w.login("alice", "pw-a", true, "", nil)
			w.putUser("alice", "alice2@example.com", "Alice Again", []string{"guests"}, &pb, nil)
			w.login("alice", "pw-a", true, "", nil)
			w.login("alice", "pw-b", true, "", nil)
			w.deleteUser("alice", nil)
			w.login("alice", "pw-b", true, "", nil)
			pwBudget -= 7
		}
		if h == 6 {
			// the end of a session, to the second: the cookie of a session is good up to its stored expiry and not a moment
			// longer — stepping over the boundary in small steps (1 s, 1 min, the clock tolerance of the SAML checks, 1 s)
			w.putShortcut("sc1", entities[0], nil, false, false, nil)
			first := w.login("alice", "pw-a", true, "", nil)
			sid0 := ""
			for sid, l := range w.sids {
				if strings.HasSuffix(first, "/"+l) {
					sid0 = sid
				}
			}
			for _, dt := range []int64{3599, 1, 1, 59, 120, 1, 3600} {
				w.now = w.now.Add(time.Duration(dt) * time.Second)
				w.toks = append(w.toks, "advance", encInt(dt), "0")
				w.impl = append(w.impl, "0/empty/-")
				w.n++
				w.sso(entities[0], true, "", "", false, sid0, "rs", nil)
				w.shortcut("sc1", "", sid0, nil)
				w.login("", "", false, sid0, nil)
			}
			pwBudget -= 1
		}
		if h == 1 {
			// several services, a restart, then requests for each of them: every entity keeps its own metadata
			w.putService("svc2", entities[1], true, false, nil)
			w.putShortcut("sc1", entities[0], nil, false, false, nil)
			w.putShortcut("sc2", entities[1], nil, false, false, nil)
			first := w.login("alice", "pw-a", true, "", nil)
			sid0 := ""
			for sid, l := range w.sids {
				if strings.HasSuffix(first, "/"+l) {
					sid0 = sid
				}
			}
			restart := func() {
				w.store.faults = nil
				w.newServer()
				w.toks = append(w.toks, "restart", "0")
				w.impl = append(w.impl, "0/empty/-")
				w.n++
			}
			for round := 0; round < 2; round++ {
				restart()
				for _, e := range entities[:2] {
					w.sso(e, true, "", "", false, sid0, "rs", nil)
				}
				w.shortcut("sc1", "", sid0, nil)
				w.shortcut("sc2", "", sid0, nil)
				if round == 0 {
					w.deleteService("svc2", nil)
				}
			}
			pwBudget -= 2
		}
		for i := 0; i < steps; i++ {
			pickSid := func() string {
				switch {
				case len(sids) > 0 && c.chance(0.7):
					return sids[c.rng.Intn(len(sids))]
				case c.chance(0.3):
					return "forged-session-id"
				}
				return ""
			}
			switch c.rng.Intn(20) {
			case 0:
				u := users[c.rng.Intn(3)]
				var p *string
				if c.chance(0.5) && pwBudget > 0 {
					x := []string{"pw-a", "pw-b", "pw-a", "pw-b", "", "pw-a", "pw-b", "a\x00b", strings.Repeat("k", 73), strings.Repeat("k", 72)}[c.rng.Intn(10)]
					p = &x
					pwBudget--
				}
				w.putUser(u, u+"@example.com", strings.ToUpper(u[:1])+u[1:]+fmt.Sprint(c.rng.Intn(3)), [][]string{nil, {"staff"}, {"a", "b"}}[c.rng.Intn(3)], p, faults())
			case 1:
				u := users[c.rng.Intn(3)]
				res := w.simple("getUser", "GET", "/users/"+u, []string{encStr(u)}, faults())
				// the record stored under /users/<id> is the user <id>
				if i := strings.Index(res, "/user:"); i >= 0 {
					payload, _ := url.PathUnescape(strings.SplitN(res[i+6:], "/", 2)[0])
					if got := strings.SplitN(payload, "|", 2)[0]; got != u {
						w.orc = append(w.orc, fmt.Sprintf("key=user-record-identity step %d: GET /users/%s returns the record of a user named %q", w.n, u, got))
					}
				}
			case 2:
				u := users[c.rng.Intn(3)]
				w.deleteUser(u, faults())
			case 3, 4:
				id := c.pick("svc1", "svc2")
				ent := entities[c.rng.Intn(3)]
				// keep entity IDs distinct across service names (precondition of the registry theorems)
				clash := false
				for k, e := range w.stored {
					if k != id && e == ent {
						clash = true
					}
				}
				if clash {
					continue
				}
				pf := faults()
				if c.chance(0.3) { // an I/O error exactly on the read of the previous record, or on the write
					pf = [][]string{{"e"}, {"e", "k"}, {"k", "e"}}[c.rng.Intn(3)]
				}
				w.putService(id, ent, c.chance(0.85), c.chance(0.08), pf)
			case 5:
				w.deleteService(c.pick("svc1", "svc2"), faults())
			case 6:
				id := c.pick("svc1", "svc2")
				w.simple("getService", "GET", "/services/"+id, []string{encStr(id)}, faults())
			case 7:
				var rl *string
				if c.chance(0.4) {
					x := "/fixed-relay"
					rl = &x
				}
				w.putShortcut(c.pick("sc1", "sc2"), append(entities, "https://unregistered.example.com/md")[c.rng.Intn(4)], rl, c.chance(0.5), c.chance(0.08), faults())
			case 8:
				n := c.pick("sc1", "sc2")
				w.simple(c.pick("getShortcut"), "GET", "/shortcuts/"+n, []string{encStr(n)}, faults())
			case 9:
				k := c.pick("users", "sessions", "services", "shortcuts")
				w.simple("list", "GET", "/"+k+"/", []string{encStr(k)}, faults())
			case 10, 11:
				if pwBudget <= 0 {
					continue
				}
				pwBudget--
				res := w.login(users[c.rng.Intn(3)], pws[c.rng.Intn(len(pws))], true, "", faults())
				for sid, l := range w.sids {
					if strings.HasSuffix(res, "/"+l) && !containsStr(sids, sid) {
						sids = append(sids, sid)
					}
				}
			case 12:
				w.login("", "", false, pickSid(), faults())
			case 13, 14, 15:
				ent := entities[c.rng.Intn(3)]
				hasCred := c.chance(0.25) && pwBudget > 0
				if hasCred {
					pwBudget--
				}
				res := w.sso(ent, c.chance(0.9), users[c.rng.Intn(3)], pws[c.rng.Intn(len(pws))], hasCred, pickSid(), c.pick("rs", "", "a&b=c"), faults())
				for sid, l := range w.sids {
					if strings.HasSuffix(res, "/"+l) && !containsStr(sids, sid) {
						sids = append(sids, sid)
					}
				}
			case 16:
				w.shortcut(c.pick("sc1", "sc2", "nope"), c.pick("", "deep/link"[:4]), pickSid(), faults())
			case 17:
				if len(sids) > 0 && c.chance(0.5) {
					sid := sids[c.rng.Intn(len(sids))]
					if c.chance(0.5) {
						w.simple("deleteSession", "DELETE", "/sessions/"+url.PathEscape(sid), []string{encStr(w.label(sid))}, faults())
					} else {
						w.simple("getSession", "GET", "/sessions/"+url.PathEscape(sid), []string{encStr(w.label(sid))}, faults())
					}
				}
			case 18:
				dt := []int64{1, 600, 3599, 3601}[c.rng.Intn(4)]
				w.now = w.now.Add(time.Duration(dt) * time.Second)
				w.toks = append(w.toks, "advance", encInt(dt), "0")
				w.impl = append(w.impl, "0/empty/-")
				w.n++
			default:
				// a server re-created over the same store
				w.store.faults = nil
				w.newServer()
				w.toks = append(w.toks, "restart", "0")
				w.impl = append(w.impl, "0/empty/-")
				w.n++
			}
		}
		c.count("c19-history-steps", fmt.Sprint(w.n/10*10))
		w.flush()
	}
}

func containsStr(l []string, s string) bool {
	for _, x := range l {
		if x == s {
			return true
		}
	}
	return false
}
