package main

import (
	"bufio"
	"crypto"
	"crypto/ecdsa"
	"crypto/rsa"
	"crypto/x509"
	"encoding/json"
	"encoding/pem"
	"fmt"
	"math/rand"
	"os"
	"path/filepath"
	"sort"
	"strconv"
	"strings"
	"time"
)

// Ctx carries the output streams and the single PRNG every random choice derives from.
type Ctx struct {
	kiExtra    string // a further child of the next xmlenc element's KeyInfo that the decrypter has no use for (RetrievalMethod URI, KeyName, …)
	kiPrefix   string // how the next xmlenc element writes the XML-Signature namespace of its KeyInfo subtree ("" = ds)
	mustRefuse string // oracle line for the current case if the implementation does not refuse it (xmlenc)
	prop       string
	tier       string
	seed       int64
	rng        *rand.Rand
	outDir     string
	cases      *bufio.Writer
	impl       *bufio.Writer
	oracle     *bufio.Writer
	files      []*os.File
	n          int
	hist       map[string]map[string]int
	samples    []string
	keysDir    string
	replay     string
	// units: number of individual requests / steps evaluated when one case line carries a whole history
	units int
	notes *bufio.Writer
}

func newCtx(prop, tier string, seed int64, outDir, keysDir string) *Ctx {
	c := &Ctx{prop: prop, tier: tier, seed: seed, rng: rand.New(rand.NewSource(seed)), outDir: outDir, keysDir: keysDir,
		hist: map[string]map[string]int{}}
	must(os.MkdirAll(outDir, 0o755))
	open := func(name string) *bufio.Writer {
		f, err := os.Create(filepath.Join(outDir, name))
		must(err)
		c.files = append(c.files, f)
		return bufio.NewWriterSize(f, 1<<20)
	}
	c.cases = open("cases.txt")
	c.impl = open("impl.txt")
	c.oracle = open("oracle.txt")
	return c
}

func (c *Ctx) close() {
	c.cases.Flush()
	c.impl.Flush()
	c.oracle.Flush()
	if c.notes != nil {
		c.notes.Flush()
	}
	for _, f := range c.files {
		f.Close()
	}
	meta := map[string]interface{}{"prop": c.prop, "tier": c.tier, "seed": c.seed, "cases": c.n, "hist": c.hist, "samples": c.samples, "units": c.units}
	b, _ := json.MarshalIndent(meta, "", " ")
	must(os.WriteFile(filepath.Join(c.outDir, "meta.json"), b, 0o644))
}

// note records free-text context for a case (notes.txt), for people reading a replay
func (c *Ctx) note(id, text string) {
	if c.notes == nil {
		f, err := os.Create(filepath.Join(c.outDir, "notes.txt"))
		must(err)
		c.files = append(c.files, f)
		c.notes = bufio.NewWriter(f)
	}
	fmt.Fprintln(c.notes, id+" "+text)
}

func (c *Ctx) quick() bool { return c.tier != "thorough" }

// count records one observation in a named histogram (input-distribution evidence).
func (c *Ctx) count(h, k string) {
	m := c.hist[h]
	if m == nil {
		m = map[string]int{}
		c.hist[h] = m
	}
	m[k]++
}

// emit writes one case: the abstract description for the model, the canonical result of the real
// code, and the direct oracle's verdict ("" = property holds on this case).
func (c *Ctx) emit(op string, toks []string, implResult string, oracleFail string) string {
	c.n++
	id := fmt.Sprintf("%s-%d", c.prop, c.n)
	line := id + " " + op + " " + strings.Join(toks, " ")
	fmt.Fprintln(c.cases, line)
	fmt.Fprintln(c.impl, id+" "+implResult)
	if oracleFail == "" {
		fmt.Fprintln(c.oracle, id+" PASS")
	} else {
		key := "generic"
		if strings.HasPrefix(oracleFail, "key=") {
			parts := strings.SplitN(oracleFail, " ", 2)
			key = strings.TrimPrefix(parts[0], "key=")
			oracleFail = ""
			if len(parts) > 1 {
				oracleFail = parts[1]
			}
		}
		c.count("oracle-fail-key", key)
		fmt.Fprintln(c.oracle, id+" FAIL key="+pct(key)+" "+encStr(oracleFail))
	}
	if len(c.samples) < 5 || (c.n%997 == 0 && len(c.samples) < 12) {
		smp := line + "  =>  " + implResult
		if len(smp) > 1500 {
			smp = smp[:1500] + "…"
		}
		c.samples = append(c.samples, smp)
	}
	cls := strings.SplitN(implResult, " ", 2)[0]
	if len(cls) > 24 {
		cls = "value"
	}
	c.count("impl-class", cls)
	return id
}

// emitOneWay records a case whose relation to the model is one-directional ("implementation accepts ⇒ model accepts with the
// same value"); ops the model does not know are answered `oneway none` and only the direct oracle applies.
func (c *Ctx) emitOneWay(op string, toks []string, implResult string, oracleFail string) string {
	return c.emit("oneway", append([]string{op}, toks...), "oneway "+implResult, oracleFail)
}

// ---- token encoding (mirror of SamlVerif/Driver/Proto.lean) ----

func isPlain(b byte) bool {
	return (b >= '0' && b <= '9') || (b >= 'A' && b <= 'Z') || (b >= 'a' && b <= 'z') || b == '.' || b == '_' || b == '-'
}

func pct(s string) string {
	var sb strings.Builder
	for i := 0; i < len(s); i++ {
		b := s[i]
		if isPlain(b) {
			sb.WriteByte(b)
		} else {
			fmt.Fprintf(&sb, "%%%02X", b)
		}
	}
	return sb.String()
}

func encStr(s string) string   { return "=" + pct(s) }
func encInt(i int64) string    { return strconv.FormatInt(i, 10) }
func encBytes(b []byte) string { return fmt.Sprintf("x%x", b) }
func encBool(b bool) string {
	if b {
		return "1"
	}
	return "0"
}
func encOptStr(s *string) []string {
	if s == nil {
		return []string{"-"}
	}
	return []string{"+", encStr(*s)}
}
func encStrList(l []string) []string {
	out := []string{strconv.Itoa(len(l))}
	for _, s := range l {
		out = append(out, encStr(s))
	}
	return out
}

// ---- misc ----

func must(err error) {
	if err != nil {
		panic(err)
	}
}

// safely runs f and converts a panic into the canonical "panic" outcome.
func safely(f func() string) (res string) {
	defer func() {
		if r := recover(); r != nil {
			msg := fmt.Sprint(r)
			if len(msg) > 80 {
				msg = msg[:80]
			}
			res = "panic " + pct(msg)
		}
	}()
	return f()
}

func newRand(seed int64) *rand.Rand { return rand.New(rand.NewSource(seed)) }

func (c *Ctx) pick(opts ...string) string { return opts[c.rng.Intn(len(opts))] }
func (c *Ctx) chance(p float64) bool      { return c.rng.Float64() < p }

func sortedKeys(m map[string]int) []string {
	ks := make([]string, 0, len(m))
	for k := range m {
		ks = append(ks, k)
	}
	sort.Strings(ks)
	return ks
}

// ---- keys ----

type KeyPair struct {
	Name string
	Key  crypto.Signer
	Cert *x509.Certificate
}

func (k *KeyPair) RSA() *rsa.PrivateKey     { return k.Key.(*rsa.PrivateKey) }
func (k *KeyPair) ECDSA() *ecdsa.PrivateKey { return k.Key.(*ecdsa.PrivateKey) }

var keyCache = map[string]*KeyPair{}

func (c *Ctx) key(name string) *KeyPair {
	if k, ok := keyCache[name]; ok {
		return k
	}
	kb, err := os.ReadFile(filepath.Join(c.keysDir, name+".key"))
	must(err)
	cb, err := os.ReadFile(filepath.Join(c.keysDir, name+".crt"))
	must(err)
	kblk, _ := pem.Decode(kb)
	cblk, _ := pem.Decode(cb)
	pk, err := x509.ParsePKCS8PrivateKey(kblk.Bytes)
	must(err)
	cert, err := x509.ParseCertificate(cblk.Bytes)
	must(err)
	k := &KeyPair{Name: name, Key: pk.(crypto.Signer), Cert: cert}
	keyCache[name] = k
	return k
}

// base instant used by generators that control the library clock (inside every test cert's validity).
var baseTime = time.Date(2024, 5, 17, 12, 30, 45, 0, time.UTC)

func ms(t time.Time) int64 { return t.UnixMilli() }
