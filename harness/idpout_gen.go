package main

// C06 / C07 / C08: what the IdP emits.  The real ServeSSO / ServeIDPInitiated runs in-process; the
// emitted form is decoded (base64, XML, decryption with the SP key), both signatures are verified
// with goxmldsig under the IdP certificate, and the decoded fields are compared with the model's
// `idpserve`.  C07 runs real SP → real IdP → real SP with each side configured from the other's
// published metadata.

import (
	cryptorand "crypto/rand"
	"crypto/x509/pkix"
	"math/big"
	"github.com/crewjam/saml/samlidp"
	"bytes"
	"compress/flate"
	"crypto"
	"crypto/rand"
	"crypto/rsa"
	"crypto/x509"
	"encoding/base64"
	"encoding/xml"
	"errors"
	"fmt"
	"html"
	"io"
	"io/fs"
	"net/http"
	"net/http/httptest"
	"net/url"
	"os"
	"regexp"
	"runtime"
	"sort"
	"strings"
	"syscall"
	"time"

	"github.com/beevik/etree"
	"github.com/crewjam/saml"
	"github.com/crewjam/saml/logger"
	"github.com/crewjam/saml/samlsp"
	"github.com/crewjam/saml/xmlenc"
	dsig "github.com/russellhaering/goxmldsig"
	"github.com/russellhaering/goxmldsig/etreeutils"
)

func init() {
	gens["C06"] = (*Ctx).genC06
	gens["C07"] = (*Ctx).genC07
	gens["C08"] = (*Ctx).genC08
}

// ---------- metadata with attribute consuming services ----------

type mdReqAttr struct {
	Friendly, Name, Format string
	Values                 []string // values the SP lists in its metadata (a filter the SP asks for; never content of an assertion)
}

type mdAttrSvc struct {
	IsDefault *bool
	Requested []mdReqAttr
}

type mdDescX struct {
	mdDesc
	Svcs []mdAttrSvc
}

type mdEntityX struct {
	EntityID string
	Descs    []mdDescX
}

func optBoolToks(b *bool) []string {
	if b == nil {
		return []string{"-"}
	}
	return []string{"+", encBool(*b)}
}

func (e mdEntityX) toks() []string {
	t := []string{encStr(e.EntityID), fmt.Sprint(len(e.Descs))}
	for _, d := range e.Descs {
		t = append(t, fmt.Sprint(len(d.ACS)))
		for _, a := range d.ACS {
			t = append(t, encStr(a.Binding), encStr(a.Location), fmt.Sprint(a.Index))
			t = append(t, optBoolToks(a.IsDefault)...)
		}
		t = append(t, fmt.Sprint(len(d.Keys)))
		for _, k := range d.Keys {
			t = append(t, encStr(k.Use))
			t = append(t, encStrList(k.Certs)...)
		}
		t = append(t, fmt.Sprint(len(d.Svcs)))
		for _, s := range d.Svcs {
			t = append(t, optBoolToks(s.IsDefault)...)
			t = append(t, fmt.Sprint(len(s.Requested)))
			for _, r := range s.Requested {
				t = append(t, encStr(r.Friendly), encStr(r.Name), encStr(r.Format))
			}
		}
	}
	return t
}

// validity stamps of registered metadata, in rotation (none, lapsed on the entity, lapsed on the role descriptor, still valid):
// what a provider advertises — its endpoints, its encryption key — is what is registered, whatever the stamps say
var realN int

func (e mdEntityX) real() *saml.EntityDescriptor {
	ed := &saml.EntityDescriptor{EntityID: e.EntityID}
	realN++
	switch realN % 4 {
	case 1:
		ed.ValidUntil = baseTime.Add(-time.Hour)
	case 3:
		ed.ValidUntil = baseTime.Add(48 * time.Hour)
	}
	for _, d := range e.Descs {
		var sd saml.SPSSODescriptor
		if realN%4 == 2 {
			t := baseTime.Add(-72 * time.Hour)
			sd.ValidUntil = &t
		}
		for _, a := range d.ACS {
			sd.AssertionConsumerServices = append(sd.AssertionConsumerServices, saml.IndexedEndpoint{Binding: a.Binding, Location: a.Location, Index: a.Index, IsDefault: a.IsDefault, ResponseLocation: a.Resp})
		}
		for _, k := range d.Keys {
			kd := saml.KeyDescriptor{Use: k.Use}
			for _, m := range k.Methods {
				kd.EncryptionMethods = append(kd.EncryptionMethods, saml.EncryptionMethod{Algorithm: m})
			}
			for _, cs := range k.Certs {
				kd.KeyInfo.X509Data.X509Certificates = append(kd.KeyInfo.X509Data.X509Certificates, saml.X509Certificate{Data: cs})
			}
			sd.KeyDescriptors = append(sd.KeyDescriptors, kd)
		}
		for _, s := range d.Svcs {
			as := saml.AttributeConsumingService{IsDefault: s.IsDefault}
			for _, r := range s.Requested {
				ra := saml.RequestedAttribute{Attribute: saml.Attribute{FriendlyName: r.Friendly, Name: r.Name, NameFormat: r.Format}}
				for _, v := range r.Values {
					ra.Attribute.Values = append(ra.Attribute.Values, saml.AttributeValue{Type: "xs:string", Value: v})
				}
				as.RequestedAttributes = append(as.RequestedAttributes, ra)
			}
			sd.AttributeConsumingServices = append(sd.AttributeConsumingServices, as)
		}
		ed.SPSSODescriptors = append(ed.SPSSODescriptors, sd)
	}
	return ed
}

type regEntryX struct {
	kind string
	md   mdEntityX
}

type registryX map[string]regEntryX

func (r registryX) GetServiceProvider(_ *http.Request, id string) (*saml.EntityDescriptor, error) {
	e, ok := r[id]
	if !ok || e.kind == "n" {
		return nil, os.ErrNotExist
	}
	if e.kind == "e" {
		return nil, fmt.Errorf("backing store unavailable")
	}
	return e.md.real(), nil
}

// ---------- sessions ----------

type sessAttr struct {
	Friendly, Name, Format string
	Values                 []string
}

type sessS struct {
	NameID, NameIDFormat, Index, SubjectID string
	Groups                                 []string
	UserName, Email, CN, SN, GN, Aff, EPPN string
	Custom                                 []sessAttr
}

func (s sessS) toks() []string {
	t := []string{encStr(s.NameID), encStr(s.NameIDFormat), encStr(s.Index), encStr(s.SubjectID)}
	t = append(t, encStrList(s.Groups)...)
	t = append(t, encStr(s.UserName), encStr(s.Email), encStr(s.CN), encStr(s.SN), encStr(s.GN), encStr(s.Aff), encStr(s.EPPN))
	t = append(t, fmt.Sprint(len(s.Custom)))
	for _, a := range s.Custom {
		t = append(t, encStr(a.Friendly), encStr(a.Name), encStr(a.Format))
		t = append(t, encStrList(a.Values)...)
	}
	return t
}

func (s sessS) real() *saml.Session {
	r := &saml.Session{ID: "sess-1", CreateTime: baseTime.Add(-time.Hour), ExpireTime: baseTime.Add(time.Hour), Index: s.Index, NameID: s.NameID,
		NameIDFormat: s.NameIDFormat, SubjectID: s.SubjectID, Groups: s.Groups, UserName: s.UserName, UserEmail: s.Email, UserCommonName: s.CN,
		UserSurname: s.SN, UserGivenName: s.GN, UserScopedAffiliation: s.Aff, EduPersonPrincipalName: s.EPPN}
	for _, a := range s.Custom {
		at := saml.Attribute{FriendlyName: a.Friendly, Name: a.Name, NameFormat: a.Format}
		for _, v := range a.Values {
			at.Values = append(at.Values, saml.AttributeValue{Type: "xs:string", Value: v})
		}
		r.CustomAttributes = append(r.CustomAttributes, at)
	}
	return r
}

// every string of the session that may legitimately appear in an assertion
func (s sessS) strings() []string {
	l := []string{s.NameID, s.UserName, s.Email, s.CN, s.SN, s.GN, s.Aff, s.EPPN, s.SubjectID, s.Index}
	l = append(l, s.Groups...)
	for _, a := range s.Custom {
		l = append(l, a.Values...)
	}
	return l
}

// strings that live in XML attribute positions of the assertion
func (s sessS) attrPositionStrings() []string {
	l := []string{s.NameIDFormat, s.Index}
	for _, a := range s.Custom {
		l = append(l, a.Friendly, a.Name, a.Format)
	}
	return l
}

var hostilePieces = []string{
	"<", ">", "&", "\"", "'", "\r", "\n", "\t", "\r\n", " ", "  ", "]]>", "<![CDATA[", "<!--", "-->", "&amp;", "&#xD;", "&lt;", "<?x ?>",
	"\U0001F600", "\U00010000", "\U0010FFFF", "�", "퟿", "", "é", "ß", "日本", "\u0085", " ", " ", "a", "b", "Z", "0", "=", ";", "#", "%", "+", "/",
	"</saml:NameID>", "<saml:Attribute Name=\"x\">", "xmlns:a=\"b\"", "\x7f",
}

// hostile returns a string over XML 1.0 characters; class names what it contains (evidence histogram).
func (c *Ctx) hostile(allowCR bool) string {
	switch c.rng.Intn(10) {
	case 0:
		return ""
	case 1, 2:
		return fmt.Sprintf("user%d", c.rng.Intn(1000))
	}
	n := 1 + c.rng.Intn(6)
	var sb strings.Builder
	for i := 0; i < n; i++ {
		p := hostilePieces[c.rng.Intn(len(hostilePieces))]
		if !allowCR && strings.Contains(p, "\r") {
			p = "\n"
		}
		sb.WriteString(p)
	}
	return sb.String()
}

func classify(s string) string {
	var cl []string
	add := func(b bool, n string) {
		if b {
			cl = append(cl, n)
		}
	}
	add(s == "", "empty")
	add(strings.ContainsAny(s, "<>&"), "markup")
	add(strings.ContainsAny(s, "\"'"), "quote")
	add(strings.Contains(s, "\r"), "CR")
	add(strings.ContainsAny(s, "\n\t"), "LF/TAB")
	add(strings.HasPrefix(s, " ") || strings.HasSuffix(s, " "), "edge-blank")
	add(strings.Contains(s, "]]>"), "cdata-end")
	for _, r := range s {
		if r >= 0x10000 {
			add(true, "non-BMP")
			break
		}
	}
	if len(cl) == 0 {
		return "plain"
	}
	return strings.Join(cl, "+")
}

func (c *Ctx) randSession(hostileLevel int, crInAttr bool) sessS {
	str := func() string {
		if hostileLevel == 0 {
			return fmt.Sprintf("v%d", c.rng.Intn(100))
		}
		s := c.hostile(true)
		c.count("session-string-class", classify(s))
		return s
	}
	astr := func() string { // strings in XML attribute positions
		if hostileLevel < 2 {
			return c.pick("", "urn:oid:1.2.3", "displayName", "urn:oasis:names:tc:SAML:2.0:attrname-format:basic")
		}
		s := c.hostile(crInAttr)
		c.count("attr-position-class", classify(s))
		return s
	}
	maybe := func() string {
		if c.chance(0.35) {
			return ""
		}
		return str()
	}
	nameID := str()
	if c.chance(0.12) {
		nameID = "" // a session without a name identifier (a stored user without an e-mail address): the assertion says so, nothing else
		c.count("session-nameid", "empty")
	}
	s := sessS{NameID: nameID, Index: astr(), SubjectID: maybe(), UserName: maybe(), Email: maybe(), CN: maybe(), SN: maybe(), GN: maybe(), Aff: maybe(), EPPN: maybe()}
	if c.chance(0.3) {
		s.NameIDFormat = c.pick("urn:oasis:names:tc:SAML:1.1:nameid-format:emailAddress", "urn:oasis:names:tc:SAML:2.0:nameid-format:persistent", astr())
	}
	for i := c.rng.Intn(4); i > 0; i-- {
		s.Groups = append(s.Groups, str())
	}
	for i := c.rng.Intn(3); i > 0; i-- {
		a := sessAttr{Friendly: astr(), Name: astr(), Format: astr()}
		for j := c.rng.Intn(3); j > 0; j-- {
			a.Values = append(a.Values, str())
		}
		s.Custom = append(s.Custom, a)
	}
	return s
}

// ---------- certificate strings for key descriptors ----------

type certChoice struct {
	data   string
	usable bool
	label  string
}

// usableCert decides independently of the library whether a certificate string can be used for
// RSA key transport: white space removed, standard base64, DER certificate with an RSA key.
func usableCert(s string) bool {
	clean := regexp.MustCompile(`\s+`).ReplaceAllString(s, "")
	der, err := base64.StdEncoding.DecodeString(clean)
	if err != nil {
		return false
	}
	cert, err := x509.ParseCertificate(der)
	if err != nil {
		return false
	}
	_, ok := cert.PublicKey.(*rsa.PublicKey)
	return ok
}

// usageCerts: certificates of the SP key that carry an X.509 key-usage extension (signature only; key encipherment; both): the
// metadata's `use` says what a key is for — a descriptor that advertises an encryption key is an encryption key
var usageCerts map[string]string

func (c *Ctx) usageCert(label string, ku x509.KeyUsage) string {
	if usageCerts == nil {
		usageCerts = map[string]string{}
	}
	if v, ok := usageCerts[label]; ok {
		return v
	}
	k := c.key("sp")
	tmpl := &x509.Certificate{SerialNumber: big.NewInt(int64(1000 + len(usageCerts))), Subject: pkix.Name{CommonName: "sp-" + label},
		NotBefore: time.Date(2000, 1, 1, 0, 0, 0, 0, time.UTC), NotAfter: time.Date(2100, 1, 1, 0, 0, 0, 0, time.UTC), KeyUsage: ku}
	der, err := x509.CreateCertificate(cryptorand.Reader, tmpl, tmpl, k.RSA().Public(), k.Key)
	must(err)
	usageCerts[label] = base64.StdEncoding.EncodeToString(der)
	return usageCerts[label]
}

func (c *Ctx) certChoices() []certChoice {
	sp := base64.StdEncoding.EncodeToString(c.key("sp").Cert.Raw)
	sp2 := base64.StdEncoding.EncodeToString(c.key("sp2").Cert.Raw)
	ec := base64.StdEncoding.EncodeToString(c.key("ec256").Cert.Raw)
	wrapped := ""
	for i := 0; i < len(sp); i += 64 {
		j := i + 64
		if j > len(sp) {
			j = len(sp)
		}
		wrapped += "\n   " + sp[i:j]
	}
	wrapped += "\n"
	l := []certChoice{
		{sp, true, "sp"}, {sp2, true, "sp2"}, {wrapped, true, "sp-wrapped"}, {ec, false, "ec"}, {"", false, "empty"},
		{"   \n ", false, "blank"}, {"!!!not-base64!!!", false, "bad-base64"}, {base64.StdEncoding.EncodeToString([]byte("garbage der")), false, "bad-der"},
		{sp[:len(sp)-8], false, "truncated"},
		{c.usageCert("sig-only", x509.KeyUsageDigitalSignature), true, "sp-usage-signature-only"},
		{c.usageCert("enc", x509.KeyUsageKeyEncipherment), true, "sp-usage-encipherment"},
		{c.usageCert("cert-sign", x509.KeyUsageCertSign|x509.KeyUsageCRLSign), true, "sp-usage-cert-sign"},
	}
	for i := range l {
		l[i].usable = usableCert(l[i].data)
	}
	return l
}

func (c *Ctx) randKeys(choices []certChoice) []mdKey {
	var ks []mdKey
	n := c.rng.Intn(4)
	for i := 0; i < n; i++ {
		k := mdKey{Use: c.pick("encryption", "signing", "", "encryption", "other")}
		nc := c.rng.Intn(3)
		if c.chance(0.6) {
			nc = 1
		}
		for j := 0; j < nc; j++ {
			ch := choices[c.rng.Intn(len(choices))]
			if c.chance(0.5) {
				ch = choices[c.rng.Intn(3)]
			}
			k.Certs = append(k.Certs, ch.data)
		}
		ks = append(ks, k)
	}
	return ks
}

var requestedNames = []string{"email", "emailAddress", "e-mail", "name", "fullname", "cn", "commonName", "givenName", "firstname", "surname", "lastName", "familyname",
	"uid", "user", "userid", "User.Id", "unknownAttr", "", "EMAIL", "urn:oid:2.5.4.3"}

func (c *Ctx) randSvcs() []mdAttrSvc {
	var out []mdAttrSvc
	for i := c.rng.Intn(3); i > 0; i-- {
		var s mdAttrSvc
		if c.chance(0.5) {
			b := c.chance(0.6)
			s.IsDefault = &b
		}
		for j := c.rng.Intn(5); j > 0; j-- {
			s.Requested = append(s.Requested, mdReqAttr{Friendly: c.pick("", "fn", "Friendly Name"), Name: requestedNames[c.rng.Intn(len(requestedNames))],
				Format: c.pick("urn:oasis:names:tc:SAML:2.0:attrname-format:basic", "urn:oasis:names:tc:SAML:2.0:attrname-format:unspecified",
					"urn:oasis:names:tc:SAML:2.0:attrname-format:uri", "")})
			if c.chance(0.35) {
				ra := &s.Requested[len(s.Requested)-1]
				ra.Values = []string{"SECRET-metadata-value-admin@sp.example.com", "root"}[:1+c.rng.Intn(2)]
				c.count("c06-requested-attribute-values", fmt.Sprint(len(ra.Values)))
			}
		}
		out = append(out, s)
	}
	return out
}

func (c *Ctx) randMDX(id string, choices []certChoice) mdEntityX {
	e := mdEntityX{EntityID: id}
	nd := 1 + c.rng.Intn(2)
	if c.chance(0.05) {
		nd = 0
	}
	for i := 0; i < nd; i++ {
		var d mdDescX
		na := 1 + c.rng.Intn(4)
		for j := 0; j < na; j++ {
			b := saml.HTTPPostBinding
			if c.chance(0.3) {
				b = bindingsPool[c.rng.Intn(4)]
			}
			ep := mdEndpoint{Binding: b, Location: fmt.Sprintf("https://sp.example.com/acs%d", c.rng.Intn(5)), Index: c.rng.Intn(4)}
			// legal locations that a parse / print round trip would rewrite (scheme case, an empty fragment): "equal to that
			// location" means the registered string
			switch {
			case c.chance(0.12):
				ep.Location = "HTTPS" + strings.TrimPrefix(ep.Location, "https")
				c.count("c06-acs-location-form", "upper-case-scheme")
			case c.chance(0.12):
				ep.Location += "#"
				c.count("c06-acs-location-form", "empty-fragment")
			default:
				c.count("c06-acs-location-form", "plain")
			}
			if c.chance(0.3) {
				x := c.chance(0.5)
				ep.IsDefault = &x
			}
			if c.chance(0.3) {
				r := fmt.Sprintf("https://sp.example.com/other-response-location%d", c.rng.Intn(3))
				ep.Resp = &r
				c.count("c06-acs-response-location", "set")
			}
			d.ACS = append(d.ACS, ep)
		}
		switch c.rng.Intn(5) {
		case 0, 1:
		case 2, 3:
			d.Keys = []mdKey{{Use: c.pick("encryption", "encryption", ""), Certs: []string{choices[c.rng.Intn(3)].data}}}
			if c.chance(0.5) {
				d.Keys = append([]mdKey{{Use: "signing", Certs: []string{choices[c.rng.Intn(3)].data}}}, d.Keys...)
			}
		default:
			d.Keys = c.randKeys(choices)
		}
		d.Svcs = c.randSvcs()
		e.Descs = append(e.Descs, d)
	}
	return e
}

// ---------- IdP configuration ----------

type idpConf struct {
	Method        string // "" = default
	UseSigner     bool
	Intermediates bool
}

type opaqueSigner struct{ k crypto.Signer }

func (o opaqueSigner) Public() crypto.PublicKey { return o.k.Public() }
func (o opaqueSigner) Sign(r io.Reader, d []byte, opts crypto.SignerOpts) ([]byte, error) {
	return o.k.Sign(r, d, opts)
}

func (c *Ctx) newIDPX(reg saml.ServiceProviderProvider, sess *saml.Session, conf idpConf) *saml.IdentityProvider {
	k := c.key("idp")
	idp := &saml.IdentityProvider{Certificate: k.Cert, Logger: logger.DefaultLogger, MetadataURL: mustURL(idpMetadataURL), SSOURL: mustURL(idpSSOURL),
		ServiceProviderProvider: reg, SessionProvider: fixedSession{sess}, SignatureMethod: conf.Method}
	if conf.UseSigner {
		idp.Signer = opaqueSigner{k.Key}
	} else {
		idp.Key = k.Key
	}
	if conf.Intermediates {
		idp.Intermediates = []*x509.Certificate{c.key("idp2").Cert}
	}
	return idp
}

func expectedSigAlg(m string) string {
	if m == "" {
		return dsig.RSASHA1SignatureMethod
	}
	return m
}

// ---------- decoding an emitted form ----------

var samlRespRe = regexp.MustCompile(`name="SAMLResponse" value="([^"]*)"`)

type decoded struct {
	action    string
	xml       []byte
	resp      saml.Response
	assertion *saml.Assertion
	encrypted bool
	sigNote   string // "" when both signatures verify with the expected algorithm
	keyBytes  []byte // content-encryption key (encrypted responses)
	iv        []byte
}

func verifyEnvelopedAlg(el *etree.Element, cert *x509.Certificate, wantAlg string) string {
	ctx := dsig.NewDefaultValidationContext(&dsig.MemoryX509CertificateStore{Roots: []*x509.Certificate{cert}})
	ctx.Clock = dsig.NewFakeClockAt(baseTime)
	if nsctx, err := etreeutils.NSBuildParentContext(el); err == nil {
		if det, err := etreeutils.NSDetatch(nsctx, el); err == nil {
			el = det
		}
	}
	sig := el.SelectElement("Signature")
	if sig == nil {
		return "no Signature child"
	}
	if sm := sig.FindElement("./SignedInfo/SignatureMethod"); sm == nil || sm.SelectAttrValue("Algorithm", "") != wantAlg {
		got := "<none>"
		if sm != nil {
			got = sm.SelectAttrValue("Algorithm", "")
		}
		return "signature method " + got + " instead of " + wantAlg
	}
	if _, err := ctx.Validate(el); err != nil {
		return "signature does not verify: " + err.Error()
	}
	return ""
}

// decodeForm parses the HTML the IdP wrote. spKey decrypts an EncryptedAssertion.
func (c *Ctx) decodeForm(body string, idpCert *x509.Certificate, wantAlg string, spKey crypto.PrivateKey) (*decoded, string) {
	m := formActionRe.FindStringSubmatch(body)
	v := samlRespRe.FindStringSubmatch(body)
	if m == nil || v == nil {
		return nil, "no form"
	}
	d := &decoded{action: html.UnescapeString(m[1])}
	raw, err := base64.StdEncoding.DecodeString(html.UnescapeString(v[1]))
	if err != nil {
		return nil, "SAMLResponse is not base64"
	}
	d.xml = raw
	doc := etree.NewDocument()
	if err := doc.ReadFromBytes(raw); err != nil {
		return nil, "response XML does not parse: " + err.Error()
	}
	root := doc.Root()
	if note := verifyEnvelopedAlg(root, idpCert, wantAlg); note != "" {
		d.sigNote = "Response: " + note
	}
	if err := xml.Unmarshal(raw, &d.resp); err != nil {
		return nil, "response does not unmarshal: " + err.Error()
	}
	var assertionEl *etree.Element
	var a saml.Assertion
	if ea := root.SelectElement("EncryptedAssertion"); ea != nil {
		d.encrypted = true
		ed := ea.SelectElement("EncryptedData")
		if ed == nil {
			return d, "EncryptedAssertion without EncryptedData"
		}
		plain, err := xmlenc.Decrypt(spKey, ed)
		if err != nil {
			return d, "cannot decrypt with the SP key: " + err.Error()
		}
		adoc := etree.NewDocument()
		if err := adoc.ReadFromBytes(plain); err != nil {
			return d, "decrypted assertion does not parse: " + err.Error()
		}
		assertionEl = adoc.Root()
		if err := xml.Unmarshal(plain, &a); err != nil {
			return d, "assertion does not unmarshal: " + err.Error()
		}
		// recover content key and IV for the freshness check
		if ek := ed.FindElement("./KeyInfo/EncryptedKey"); ek != nil {
			if kb, err := xmlenc.Decrypt(spKey, ek); err == nil {
				d.keyBytes = kb
			}
		}
		if cv := ed.FindElement("./CipherData/CipherValue"); cv != nil {
			if ct, err := base64.StdEncoding.DecodeString(strings.TrimSpace(cv.Text())); err == nil && len(ct) >= 16 {
				d.iv = ct[:16]
			}
		}
		if root.SelectElement("Assertion") != nil {
			return d, "both EncryptedAssertion and Assertion present"
		}
	} else if ael := root.SelectElement("Assertion"); ael != nil {
		assertionEl = ael
		if d.resp.Assertion == nil {
			return d, "assertion does not unmarshal"
		}
		a = *d.resp.Assertion
	} else {
		return d, "no assertion"
	}
	if note := verifyEnvelopedAlg(assertionEl, idpCert, wantAlg); note != "" && d.sigNote == "" {
		d.sigNote = "Assertion: " + note
	}
	d.assertion = &a
	return d, ""
}

func renderAssertionToks(a *saml.Assertion) []string {
	t := []string{encInt(ms(a.IssueInstant)), encStr(a.Issuer.Value)}
	nid := saml.NameID{}
	var confs []saml.SubjectConfirmation
	if a.Subject != nil {
		if a.Subject.NameID != nil {
			nid = *a.Subject.NameID
		}
		confs = a.Subject.SubjectConfirmations
	}
	t = append(t, encStr(nid.Value), encStr(nid.Format), encStr(nid.NameQualifier), encStr(nid.SPNameQualifier), fmt.Sprint(len(confs)))
	for _, sc := range confs {
		d := saml.SubjectConfirmationData{}
		if sc.SubjectConfirmationData != nil {
			d = *sc.SubjectConfirmationData
		}
		t = append(t, encStr(sc.Method), encStr(d.InResponseTo), encStr(d.Recipient), encInt(ms(d.NotOnOrAfter)))
	}
	cd := saml.Conditions{}
	if a.Conditions != nil {
		cd = *a.Conditions
	}
	t = append(t, encInt(ms(cd.NotBefore)), encInt(ms(cd.NotOnOrAfter)), fmt.Sprint(len(cd.AudienceRestrictions)))
	for _, ar := range cd.AudienceRestrictions {
		t = append(t, encStr(ar.Audience.Value))
	}
	sidx := ""
	if len(a.AuthnStatements) > 0 {
		sidx = a.AuthnStatements[0].SessionIndex
	}
	var attrs []saml.Attribute
	for _, st := range a.AttributeStatements {
		attrs = append(attrs, st.Attributes...)
	}
	t = append(t, encStr(sidx), fmt.Sprint(len(attrs)))
	for _, at := range attrs {
		t = append(t, encStr(at.FriendlyName), encStr(at.Name), encStr(at.NameFormat), fmt.Sprint(len(at.Values)))
		for _, v := range at.Values {
			t = append(t, encStr(v.Value))
		}
	}
	return t
}

func (d *decoded) render() string {
	iss := ""
	if d.resp.Issuer != nil {
		iss = d.resp.Issuer.Value
	}
	t := []string{"ok", encStr(d.action), encStr(d.resp.Destination), encStr(d.resp.InResponseTo), encInt(ms(d.resp.IssueInstant)), encStr(iss),
		encStr(d.resp.Status.StatusCode.Value), encBool(d.encrypted), "A"}
	t = append(t, renderAssertionToks(d.assertion)...)
	return strings.Join(t, " ")
}

// ---------- one served request ----------

type serveCase struct {
	mode     string // sso | init
	reg      registryX
	regOrder []string
	usable   map[string]bool
	a        areq
	spID     string
	sess     sessS
	conf     idpConf
	delay    int64
	skew     int64
	reqNow   int64
	now      int64
	post     bool
}

func steppingClock(first, later int64) func() time.Time {
	n := 0
	return func() time.Time {
		n++
		if n == 1 {
			return time.UnixMilli(first).UTC()
		}
		return time.UnixMilli(later).UTC()
	}
}

func buildSSORequest(a areq, lex int, post bool) *http.Request {
	buf := a.xml(lex)
	if post {
		form := url.Values{"SAMLRequest": {base64.StdEncoding.EncodeToString(buf)}, "RelayState": {"rs"}}
		r := httptest.NewRequest("POST", idpSSOURL, strings.NewReader(form.Encode()))
		r.Header.Set("Content-Type", "application/x-www-form-urlencoded")
		return r
	}
	var zb bytes.Buffer
	w, _ := flate.NewWriter(&zb, 9)
	w.Write(buf)
	w.Close()
	q := url.Values{"SAMLRequest": {base64.StdEncoding.EncodeToString(zb.Bytes())}, "RelayState": {"rs"}}
	return httptest.NewRequest("GET", idpSSOURL+"?"+q.Encode(), nil)
}

func (sc *serveCase) toks() []string {
	toks := []string{sc.mode, encStr(idpSSOURL), encStr(idpMetadataURL), encInt(sc.delay), encInt(sc.skew), encInt(sc.reqNow), encInt(sc.now), fmt.Sprint(len(sc.regOrder))}
	for _, id := range sc.regOrder {
		e := sc.reg[id]
		toks = append(toks, encStr(id), e.kind)
		if e.kind == "f" {
			toks = append(toks, e.md.toks()...)
		}
	}
	ks := make([]string, 0, len(sc.usable))
	for k := range sc.usable {
		ks = append(ks, k)
	}
	sortStrings(ks)
	toks = append(toks, fmt.Sprint(len(ks)))
	for _, k := range ks {
		toks = append(toks, encStr(k), encBool(sc.usable[k]))
	}
	if sc.mode == "sso" {
		a := sc.a
		iiTok := encInt(zeroTimeMs)
		if a.II != nil {
			iiTok = encInt(*a.II)
		}
		ver := ""
		if a.Version != nil {
			ver = *a.Version
		}
		toks = append(toks, encStr(a.ID))
		toks = append(toks, encOptStr(a.Issuer)...)
		toks = append(toks, encStr(a.Destination), encStr(ver), iiTok, encStr(a.ACSURL), encStr(a.ACSIndex))
	} else {
		toks = append(toks, encStr(sc.spID))
	}
	return append(toks, sc.sess.toks()...)
}

// serve runs the real IdP and returns the decoded response (nil on an HTTP error) plus a note.
func (c *Ctx) serve(sc *serveCase) (*decoded, string, string) {
	d, impl, note := c.serveWithBody(sc)
	return d.dec, impl, note
}

func sortStrings(l []string) {
	for i := 1; i < len(l); i++ {
		for j := i; j > 0 && l[j] < l[j-1]; j-- {
			l[j], l[j-1] = l[j-1], l[j]
		}
	}
}

// scopeOracle checks the statement of C06 on a decoded response, independently of the model.
func (sc *serveCase) scopeOracle(d *decoded, note string) string {
	if d == nil {
		return ""
	}
	if d.assertion == nil {
		return "key=c06-undecodable emitted response cannot be decoded: " + note
	}
	var why []string
	if d.sigNote != "" {
		return "key=c06-signature " + d.sigNote
	}
	a := d.assertion
	// which SP?
	spID := sc.spID
	reqID := ""
	if sc.mode == "sso" {
		if sc.a.Issuer != nil {
			spID = *sc.a.Issuer
		}
		reqID = sc.a.ID
	}
	e, ok := sc.reg[spID]
	if !ok || e.kind != "f" {
		return "key=c06-unregistered response issued for an SP that is not registered"
	}
	registered := false
	for _, ds := range e.md.Descs {
		for _, ep := range ds.ACS {
			if ep.Location == d.action && ep.Binding == saml.HTTPPostBinding {
				registered = true
			}
		}
	}
	if !registered {
		why = append(why, "form action "+d.action+" is not a registered HTTP-POST endpoint")
	}
	if d.resp.Destination != d.action {
		why = append(why, "Destination "+d.resp.Destination+" differs from the form action")
	}
	if a.Subject == nil || len(a.Subject.SubjectConfirmations) != 1 || a.Subject.SubjectConfirmations[0].SubjectConfirmationData == nil {
		why = append(why, "not exactly one bearer confirmation with data")
	} else {
		scd := a.Subject.SubjectConfirmations[0]
		if scd.Method != "urn:oasis:names:tc:SAML:2.0:cm:bearer" {
			why = append(why, "confirmation method "+scd.Method)
		}
		if scd.SubjectConfirmationData.Recipient != d.action {
			why = append(why, "Recipient "+scd.SubjectConfirmationData.Recipient+" differs from the form action")
		}
		if scd.SubjectConfirmationData.InResponseTo != reqID {
			why = append(why, "assertion InResponseTo "+scd.SubjectConfirmationData.InResponseTo+" is not the request ID")
		}
		if ms(scd.SubjectConfirmationData.NotOnOrAfter) != sc.reqNow+sc.delay {
			why = append(why, "bearer NotOnOrAfter is not receipt + MaxIssueDelay")
		}
	}
	if d.resp.InResponseTo != reqID {
		why = append(why, "response InResponseTo "+d.resp.InResponseTo+" is not the request ID")
	}
	if a.Conditions == nil || len(a.Conditions.AudienceRestrictions) != 1 || a.Conditions.AudienceRestrictions[0].Audience.Value != e.md.EntityID {
		why = append(why, "audience is not the registered SP's entity ID")
	} else if ms(a.Conditions.NotBefore) < sc.reqNow-sc.skew {
		why = append(why, "Conditions open earlier than MaxClockSkew before receipt")
	}
	if a.Issuer.Value != idpMetadataURL || d.resp.Issuer == nil || d.resp.Issuer.Value != idpMetadataURL {
		why = append(why, "issuer is not the IdP's entity ID")
	}
	if a.Subject != nil && (a.Subject.NameID == nil || a.Subject.NameID.Value != sc.sess.NameID) {
		why = append(why, "NameID is not the session's")
	}
	allowed := map[string]bool{}
	for _, s := range sc.sess.strings() {
		allowed[s] = true
	}
	for _, st := range a.AttributeStatements {
		for _, at := range st.Attributes {
			for _, v := range at.Values {
				if !allowed[v.Value] {
					why = append(why, "attribute value "+fmt.Sprintf("%q", v.Value)+" is not a string of the session")
				}
			}
		}
	}
	if len(why) > 0 {
		return "key=c06-scope " + strings.Join(why, "; ")
	}
	return ""
}

func (c *Ctx) baseServeCase(choices []certChoice) *serveCase {
	sc := &serveCase{reg: registryX{}, usable: map[string]bool{}, delay: 90000, skew: 180000}
	issuers := []string{"https://sp.example.com/metadata", "https://other.example.com/metadata"}
	for i, id := range issuers {
		if i == 1 && c.chance(0.5) {
			continue
		}
		sc.reg[id] = regEntryX{kind: "f", md: c.randMDX(id, choices)}
		sc.regOrder = append(sc.regOrder, id)
	}
	if c.chance(0.05) {
		sc.reg["https://broken.example.com/metadata"] = regEntryX{kind: "e"}
		sc.regOrder = append(sc.regOrder, "https://broken.example.com/metadata")
	}
	for _, ch := range choices {
		sc.usable[ch.data] = ch.usable
	}
	sc.reqNow = ms(baseTime) + int64(c.rng.Intn(1000))
	sc.now = sc.reqNow + int64(c.rng.Intn(3))*int64(c.rng.Intn(400))
	switch c.rng.Intn(8) {
	case 0:
		sc.delay = int64(c.rng.Intn(5000))
	case 1:
		sc.skew = int64(c.rng.Intn(5000))
	case 2:
		sc.skew = 0
	}
	return sc
}

func (c *Ctx) randAreq(sc *serveCase) areq {
	iss := sc.regOrder[c.rng.Intn(len(sc.regOrder))]
	if c.chance(0.04) {
		iss = "https://unknown.example.com/metadata"
	}
	v := "2.0"
	// IssueInstant around the boundaries that matter: receipt − skew (NotBefore clamp) and receipt − delay (staleness)
	var ii int64
	switch c.rng.Intn(7) {
	case 0:
		ii = sc.reqNow - sc.skew + int64(c.rng.Intn(5)) - 2
	case 1:
		ii = sc.reqNow - sc.delay + int64(c.rng.Intn(5)) - 2
	case 2:
		ii = sc.reqNow + int64(c.rng.Intn(2000))
	default:
		ii = sc.reqNow - int64(c.rng.Intn(int(sc.delay)+1))
	}
	a := areq{ID: fmt.Sprintf("id-%08x", c.rng.Uint32()), Issuer: &iss, Version: &v, II: &ii}
	if c.chance(0.1) {
		a.ID = c.hostile(false)
	}
	if c.chance(0.3) {
		// the optional parts of a request (its own Subject / NameID, NameIDPolicy, RequestedAuthnContext, ForceAuthn …) describe
		// what the requester would like; the response describes the authenticated session only
		a.Extras = true
		c.count("request-optional-parts", "present")
	}
	if c.chance(0.5) {
		a.Destination = idpSSOURL
	}
	// mostly select an endpoint that is registered for the issuer (by URL, by index, by both), sometimes a near miss
	var eps []mdEndpoint
	if e, ok := sc.reg[iss]; ok {
		for _, d := range e.md.Descs {
			eps = append(eps, d.ACS...)
		}
	}
	pickURL := func() string {
		if len(eps) > 0 && c.chance(0.8) {
			return eps[c.rng.Intn(len(eps))].Location
		}
		return fmt.Sprintf("https://sp.example.com/acs%d", c.rng.Intn(5))
	}
	pickIdx := func() string {
		if len(eps) > 0 && c.chance(0.8) {
			return fmt.Sprint(eps[c.rng.Intn(len(eps))].Index)
		}
		return fmt.Sprint(c.rng.Intn(5))
	}
	switch c.rng.Intn(5) {
	case 0:
		a.ACSIndex = pickIdx()
	case 1, 2:
		a.ACSURL = pickURL()
	case 3:
		a.ACSIndex = pickIdx()
		a.ACSURL = pickURL()
	}
	return a
}

var idpMethods = []string{"", dsig.RSASHA1SignatureMethod, dsig.RSASHA256SignatureMethod, dsig.RSASHA384SignatureMethod, dsig.RSASHA512SignatureMethod}

func (c *Ctx) randConf() idpConf {
	return idpConf{Method: idpMethods[c.rng.Intn(len(idpMethods))], UseSigner: c.chance(0.3), Intermediates: c.chance(0.3)}
}

func (c *Ctx) genC06() {
	choices := c.certChoices()
	n := 700
	if !c.quick() {
		n = 12000
	}
	for i := 0; i < n; i++ {
		sc := c.baseServeCase(choices)
		sc.sess = c.randSession(c.rng.Intn(2), false)
		sc.conf = c.randConf()
		sc.post = c.chance(0.5)
		if c.chance(0.25) {
			sc.mode = "init"
			sc.spID = sc.regOrder[c.rng.Intn(len(sc.regOrder))]
		} else {
			sc.mode = "sso"
			sc.a = c.randAreq(sc)
		}
		d, impl, note := c.serve(sc)
		c.count("c06-mode", sc.mode)
		c.count("c06-idp-method", map[bool]string{true: "signer:", false: "key:"}[sc.conf.UseSigner]+sc.conf.Method)
		if d != nil && d.assertion != nil {
			c.count("c06-encrypted", encBool(d.encrypted))
			if sc.mode == "sso" {
				c.count("c06-acs-by", map[bool]string{true: "index", false: map[bool]string{true: "url", false: "default"}[sc.a.ACSURL != ""]}[sc.a.ACSIndex != ""])
			}
		}
		c.emit("idpserve", sc.toks(), impl, sc.scopeOracle(d, note))
	}
	c.signerFaults()
	c.idpReconfiguration()
	c.abortedReplies()
}

// shortWriter: a client that goes away — the reply can be written only in part
type shortWriter struct {
	h     http.Header
	room  int
	code  int
	wrote int
}

func (w *shortWriter) Header() http.Header { return w.h }
func (w *shortWriter) WriteHeader(c int)   { w.code = c }
func (w *shortWriter) Write(p []byte) (int, error) {
	if w.room <= 0 {
		return 0, errors.New("write: broken pipe")
	}
	n := len(p)
	if n > w.room {
		n = w.room
	}
	w.room -= n
	w.wrote += n
	if n < len(p) {
		return n, errors.New("write: broken pipe")
	}
	return n, nil
}

// abortedReplies: a reply that could not be written (the client went away after 0, 10, 500 bytes) followed by another user's
// login at another SP on the same IdP value: the second reply is one form, for the second user's SP, about the second user.
func (c *Ctx) abortedReplies() {
	now := baseTime
	saml.TimeNow = func() time.Time { return now }
	saml.Clock = dsig.NewFakeClockAt(now)
	saml.RandReader = &detReader{c: c}
	xmlenc.RandReader = &detReader{c: c}
	k := c.key("idp")
	mk := func(entity string) *saml.EntityDescriptor {
		return &saml.EntityDescriptor{EntityID: entity, SPSSODescriptors: []saml.SPSSODescriptor{{
			AssertionConsumerServices: []saml.IndexedEndpoint{{Binding: saml.HTTPPostBinding, Location: entity + "/acs", Index: 1}}}}}
	}
	mdA, mdB := mk("https://sp-a.example.com"), mk("https://sp-b.example.com")
	for round := 0; round < 12; round++ {
		room := []int{0, 10, 500, 3000}[round%4]
		why := ""
		res := safely(func() string {
			reg := &rollingRegistry{md: mdA}
			sess := &saml.Session{ID: "s-a", NameID: "alice-nameid", UserName: "alice", CreateTime: now, ExpireTime: now.Add(time.Hour), Index: "i-a"}
			idp := &saml.IdentityProvider{Key: k.Key, Certificate: k.Cert, Logger: logger.DefaultLogger, MetadataURL: mustURL(idpMetadataURL), SSOURL: mustURL(idpSSOURL),
				ServiceProviderProvider: reg, SessionProvider: fixedSession{sess}}
			r, _ := http.NewRequest("GET", "https://idp.example.com/login/a", nil)
			idp.ServeIDPInitiated(&shortWriter{h: http.Header{}, room: room}, r, mdA.EntityID, "rs-a")
			// the next visitor
			reg.md = mdB
			idp.SessionProvider = fixedSession{&saml.Session{ID: "s-b", NameID: "bob-nameid", UserName: "bob", CreateTime: now, ExpireTime: now.Add(time.Hour), Index: "i-b"}}
			w := httptest.NewRecorder()
			idp.ServeIDPInitiated(w, r, mdB.EntityID, "rs-b")
			body := w.Body.String()
			forms := strings.Count(body, "<form")
			if forms != 1 {
				return fmt.Sprintf("forms=%d", forms)
			}
			if strings.Contains(body, "sp-a.example.com") {
				return "mentions-previous-sp"
			}
			v, _ := inputValOf([]byte(body), "SAMLResponse")
			raw, _ := base64.StdEncoding.DecodeString(v)
			if bytes.Contains(raw, []byte("alice-nameid")) || !bytes.Contains(raw, []byte("bob-nameid")) {
				return "wrong-user"
			}
			return "one-form"
		})
		if res != "one-form" {
			why = fmt.Sprintf("key=c06-scope:after-aborted-reply a reply to alice (SP A) was cut after %d bytes; the next reply, to bob at SP B, is not one form for SP B about bob: %s", room, res)
		}
		c.count("c06-aborted-reply", fmt.Sprintf("room=%d -> %s", room, res))
		c.emitOneWay("abortedreply", []string{fmt.Sprint(room)}, res, why)
	}
}

// faultySigner: an external signer (HSM, KMS) that fails on chosen calls
type faultySigner struct {
	k      crypto.Signer
	n      *int
	failAt map[int]bool
}

func (f faultySigner) Public() crypto.PublicKey { return f.k.Public() }
func (f faultySigner) Sign(r io.Reader, d []byte, opts crypto.SignerOpts) ([]byte, error) {
	*f.n++
	if f.failAt[*f.n] {
		return nil, fmt.Errorf("signing device unavailable (call %d)", *f.n)
	}
	return f.k.Sign(r, d, opts)
}

// signerFaults: "both the assertion and the enclosing response carry enveloped signatures that verify … (private key or
// external signer)" — when the external signer fails on the first, the second or every call, the IdP emits either nothing
// (an error reply) or a form whose two signatures verify; never a form with a signature missing.
// idpReconfiguration: one IdentityProvider value whose signing configuration changes between replies (signature method raised,
// certificate rolled over, key replaced by an external signer): every reply is signed with the configuration in force when it
// is made, and verifies under the certificate the IdP advertises at that moment
func (c *Ctx) idpReconfiguration() {
	now := baseTime
	saml.TimeNow = func() time.Time { return now }
	saml.Clock = dsig.NewFakeClockAt(now)
	saml.RandReader = &detReader{c: c}
	xmlenc.RandReader = &detReader{c: c}
	entity := "https://sp.example.com/reconfigured"
	reg := &rollingRegistry{md: &saml.EntityDescriptor{EntityID: entity, SPSSODescriptors: []saml.SPSSODescriptor{{
		AssertionConsumerServices: []saml.IndexedEndpoint{{Binding: saml.HTTPPostBinding, Location: entity + "/acs", Index: 1}}}}}}
	k1, k2 := c.key("idp"), c.key("idp2")
	idp := &saml.IdentityProvider{Key: k1.Key, Certificate: k1.Cert, Logger: logger.DefaultLogger, MetadataURL: mustURL(idpMetadataURL),
		SSOURL: mustURL(idpSSOURL), ServiceProviderProvider: reg,
		SessionProvider: fixedSession{&saml.Session{ID: "sess-r", NameID: "alice", UserName: "alice", CreateTime: now, ExpireTime: now.Add(time.Hour), Index: "idx-r"}}}
	calls := 0
	phases := []struct {
		name  string
		apply func()
		cert  *x509.Certificate
		meth  string
	}{
		{"initial", func() {}, k1.Cert, ""},
		{"method-raised", func() { idp.SignatureMethod = dsig.RSASHA256SignatureMethod }, k1.Cert, dsig.RSASHA256SignatureMethod},
		{"certificate-rolled-over", func() { idp.Key, idp.Certificate = k2.Key, k2.Cert }, k2.Cert, dsig.RSASHA256SignatureMethod},
		{"external-signer", func() {
			idp.Key, idp.Certificate = nil, k1.Cert
			idp.Signer = faultySigner{k: k1.Key, n: &calls, failAt: map[int]bool{}}
		}, k1.Cert, dsig.RSASHA256SignatureMethod},
		{"method-lowered", func() { idp.SignatureMethod = "" }, k1.Cert, ""},
	}
	for _, ph := range phases {
		ph.apply()
		before := calls
		res := safely(func() string {
			w := httptest.NewRecorder()
			r, _ := http.NewRequest("GET", "https://idp.example.com/login/reconf", nil)
			idp.ServeIDPInitiated(w, r, entity, "rs")
			body := w.Body.String()
			if !strings.Contains(body, `name="SAMLResponse"`) {
				return fmt.Sprintf("no-form-%d", w.Code)
			}
			d, note := c.decodeForm(body, ph.cert, expectedSigAlg(ph.meth), nil)
			if d == nil {
				return "undecodable: " + note
			}
			if d.sigNote != "" {
				return "bad-signatures: " + d.sigNote
			}
			return "signed-form"
		})
		why := ""
		if res != "signed-form" {
			why = "key=c06-signature:reconfigured after the change '" + ph.name + "' on one IdentityProvider value the reply is not signed with the configuration in force: " + res
		} else if ph.name == "external-signer" && calls == before {
			why = "key=c06-signature:reconfigured the external signer configured in place of the key was never asked to sign"
		}
		c.count("c06-idp-reconfiguration", ph.name)
		c.emitOneWay("reconfigure", []string{encStr(ph.name)}, strings.SplitN(res, ":", 2)[0], why)
	}
}

func (c *Ctx) signerFaults() {
	now := baseTime
	saml.TimeNow = func() time.Time { return now }
	saml.Clock = dsig.NewFakeClockAt(now)
	saml.RandReader = &detReader{c: c}
	xmlenc.RandReader = &detReader{c: c}
	entity := "https://sp.example.com/signer-faults"
	for _, enc := range []bool{false, true} {
		kds := []saml.KeyDescriptor{}
		if enc {
			kd := saml.KeyDescriptor{Use: "encryption"}
			kd.KeyInfo.X509Data.X509Certificates = []saml.X509Certificate{{Data: base64.StdEncoding.EncodeToString(c.key("sp").Cert.Raw)}}
			kds = append(kds, kd)
		}
		reg := &rollingRegistry{md: &saml.EntityDescriptor{EntityID: entity, SPSSODescriptors: []saml.SPSSODescriptor{{
			SSODescriptor:             saml.SSODescriptor{RoleDescriptor: saml.RoleDescriptor{KeyDescriptors: kds}},
			AssertionConsumerServices: []saml.IndexedEndpoint{{Binding: saml.HTTPPostBinding, Location: entity + "/acs", Index: 1}}}}}}
		for _, method := range []string{"", dsig.RSASHA256SignatureMethod} {
			for _, fail := range [][]int{{}, {1}, {2}, {1, 2}, {3}} {
				k := c.key("idp")
				n := 0
				fa := map[int]bool{}
				for _, x := range fail {
					fa[x] = true
				}
				idp := &saml.IdentityProvider{Signer: faultySigner{k: k.Key, n: &n, failAt: fa}, Certificate: k.Cert, Logger: logger.DefaultLogger, MetadataURL: mustURL(idpMetadataURL),
					SSOURL: mustURL(idpSSOURL), ServiceProviderProvider: reg, SignatureMethod: method,
					SessionProvider: fixedSession{&saml.Session{ID: "sess-f", NameID: "alice", UserName: "alice", CreateTime: now, ExpireTime: now.Add(time.Hour), Index: "idx-f"}}}
				why := ""
				res := safely(func() string {
					w := httptest.NewRecorder()
					r, _ := http.NewRequest("GET", "https://idp.example.com/login/faults", nil)
					idp.ServeIDPInitiated(w, r, entity, "rs")
					body := w.Body.String()
					if !strings.Contains(body, `name="SAMLResponse"`) {
						return fmt.Sprintf("no-form-%d", w.Code)
					}
					var spKey crypto.PrivateKey
					if enc {
						spKey = c.key("sp").Key
					}
					d, note := c.decodeForm(body, k.Cert, expectedSigAlg(method), spKey)
					if d == nil {
						return "undecodable: " + note
					}
					if d.sigNote != "" {
						return "bad-signatures: " + d.sigNote
					}
					return "signed-form"
				})
				if len(fail) == 0 && res != "signed-form" {
					why = "key=c06-signature with a healthy external signer the IdP emitted: " + res
				}
				if strings.HasPrefix(res, "bad-signatures") || strings.HasPrefix(res, "undecodable") || strings.HasPrefix(res, "panic") {
					why = fmt.Sprintf("key=c06-signature:signer-fault the external signer failed on call(s) %v and the IdP emitted a form that is not properly signed: %s", fail, res)
				}
				c.count("c06-signer-faults", fmt.Sprintf("enc=%v fail=%v -> %s", enc, fail, strings.SplitN(res, ":", 2)[0]))
				c.emitOneWay("signerfault", []string{encBool(enc), encStr(method), encStr(fmt.Sprint(fail))}, strings.SplitN(res, ":", 2)[0], why)
			}
		}
	}
}

// e2eKeyRotation: one IdentityProvider value for the life of a deployment; the SP rotates its key pair, publishes new metadata
// under the same entity ID, re-registers, and signs in again: every sign-in is accepted by the SP *as it is now* and carries the
// session's name identifier ("the SP's own published metadata, serialized and re-parsed, is sufficient registration" — each time).
func (c *Ctx) e2eKeyRotation() {
	t0 := ms(baseTime)
	cur := time.UnixMilli(t0).UTC()
	saml.TimeNow = func() time.Time { return cur }
	saml.Clock = dsig.NewFakeClockAt(cur)
	saml.MaxIssueDelay, saml.MaxClockSkew = 90*time.Second, 180*time.Second
	saml.RandReader = &detReader{c: c}
	xmlenc.RandReader = &detReader{c: c}
	sess := sessS{NameID: "rotating-user", Index: "idx-rot", UserName: "alice", Email: "alice@example.com"}
	for _, plan := range [][]string{{"sp", "sp2", "sp"}, {"sp2", "ec256", "sp"}} {
		idp := c.newIDPX(nil, sess.real(), idpConf{})
		reg := &rollingRegistry{}
		idp.ServiceProviderProvider = reg
		why := ""
		var seq []string
		res := safely(func() string {
			idpMD, err := publish(idp.Metadata())
			if err != nil {
				return "err idp-metadata"
			}
			for round, keyName := range plan {
				seq = append(seq, keyName)
				sp := c.buildSP(e2eCfg{EntityID: "https://sp.example.com/rotating", KeyName: keyName, Binding: "redirect"}, idpMD)
				spMD, err := publish(sp.Metadata())
				if err != nil {
					return "err sp-metadata"
				}
				reg.md = spMD
				req, err := sp.MakeAuthenticationRequest(sp.GetSSOBindingLocation(saml.HTTPRedirectBinding), saml.HTTPRedirectBinding, saml.HTTPPostBinding)
				if err != nil {
					return "err sp-request"
				}
				u, err := req.Redirect("relay", sp)
				if err != nil {
					return "err sp-request"
				}
				w := httptest.NewRecorder()
				idp.ServeSSO(w, httptest.NewRequest("GET", u.String(), nil))
				body := w.Body.String()
				m := formActionRe.FindStringSubmatch(body)
				v := samlRespRe.FindStringSubmatch(body)
				if w.Code != 200 || m == nil || v == nil {
					return fmt.Sprintf("round %d (%v): the IdP answered %d without a form", round+1, seq, w.Code)
				}
				form := url.Values{"SAMLResponse": {html.UnescapeString(v[1])}, "RelayState": {"relay"}}
				pr := httptest.NewRequest("POST", html.UnescapeString(m[1]), strings.NewReader(form.Encode()))
				pr.Header.Set("Content-Type", "application/x-www-form-urlencoded")
				_ = pr.ParseForm()
				a, err := sp.ParseResponse(pr, []string{req.ID})
				if err != nil {
					msg := err.Error()
					if ie, ok := err.(*saml.InvalidResponseError); ok && ie.PrivateErr != nil {
						msg = ie.PrivateErr.Error()
					}
					return fmt.Sprintf("round %d (%v): the SP, holding key %s now, rejects the response: %s", round+1, seq, keyName, msg)
				}
				if a.Subject == nil || a.Subject.NameID == nil || a.Subject.NameID.Value != sess.NameID {
					return fmt.Sprintf("round %d (%v): name identifier altered", round+1, seq)
				}
			}
			return "ok"
		})
		if res != "ok" {
			why = "key=c07-not-accepted:key-rotation " + res
		}
		c.count("c07-key-rotation", strings.SplitN(res, " ", 2)[0])
		c.emitOneWay("e2erotation", encStrListRaw(plan), strings.SplitN(res, " ", 2)[0], why)
	}
}

// ---------- C07: real SP → real IdP → real SP ----------

type e2eCfg struct {
	EntityID  string // "" = unset
	KeyName   string // sp | sp2 | ec256 | ec384 | none
	SigMethod string
	Binding   string // redirect | post
	AllowIDP  bool
}

func (c *Ctx) buildSP(cfg e2eCfg, idpMD *saml.EntityDescriptor) *saml.ServiceProvider {
	sp := &saml.ServiceProvider{EntityID: cfg.EntityID, MetadataURL: mustURL("https://sp.example.com/saml/metadata"), AcsURL: mustURL("https://sp.example.com/saml/acs"),
		IDPMetadata: idpMD, AllowIDPInitiated: cfg.AllowIDP, SignatureMethod: cfg.SigMethod}
	if cfg.KeyName != "none" {
		k := c.key(cfg.KeyName)
		sp.Key = k.Key
		sp.Certificate = k.Cert
	}
	return sp
}

// publish serialises metadata to XML and parses it back with the repository's own parser.
func publish(md *saml.EntityDescriptor) (*saml.EntityDescriptor, error) {
	buf, err := xml.MarshalIndent(md, "", "  ")
	if err != nil {
		return nil, err
	}
	return samlsp.ParseMetadata(buf)
}

type singleSP struct {
	id string
	md *saml.EntityDescriptor
}

func (s singleSP) GetServiceProvider(_ *http.Request, id string) (*saml.EntityDescriptor, error) {
	if id == s.id {
		return s.md, nil
	}
	return nil, os.ErrNotExist
}

func attrsToks(a *saml.Assertion) []string {
	var attrs []saml.Attribute
	for _, st := range a.AttributeStatements {
		attrs = append(attrs, st.Attributes...)
	}
	t := []string{fmt.Sprint(len(attrs))}
	for _, at := range attrs {
		t = append(t, encStr(at.FriendlyName), encStr(at.Name), encStr(at.NameFormat), fmt.Sprint(len(at.Values)))
		for _, v := range at.Values {
			t = append(t, encStr(v.Value))
		}
	}
	return t
}

// identityDiff compares what the SP got with the session, without going through the model: NameID, the custom attributes
// (names and values, in order, as a contiguous run), the groups, and every standard attribute's value.
func identityDiff(a *saml.Assertion, s sessS) string {
	nid := ""
	if a.Subject != nil && a.Subject.NameID != nil {
		nid = a.Subject.NameID.Value
	}
	if nid != s.NameID {
		return fmt.Sprintf("NameID %q came back as %q", s.NameID, nid)
	}
	var attrs []saml.Attribute
	for _, st := range a.AttributeStatements {
		attrs = append(attrs, st.Attributes...)
	}
	same := func(x saml.Attribute, y sessAttr) bool {
		if x.FriendlyName != y.Friendly || x.Name != y.Name || x.NameFormat != y.Format || len(x.Values) != len(y.Values) {
			return false
		}
		for i := range y.Values {
			if x.Values[i].Value != y.Values[i] {
				return false
			}
		}
		return true
	}
	if len(s.Custom) > 0 {
		found := false
		for i := 0; i+len(s.Custom) <= len(attrs); i++ {
			ok := true
			for j := range s.Custom {
				if !same(attrs[i+j], s.Custom[j]) {
					ok = false
					break
				}
			}
			if ok {
				found = true
				break
			}
		}
		if !found {
			return "the custom attributes did not arrive with their names and values intact and in order"
		}
	}
	byName := map[string][]string{}
	for _, at := range attrs {
		var vs []string
		for _, v := range at.Values {
			vs = append(vs, v.Value)
		}
		if _, dup := byName[at.Name]; !dup {
			byName[at.Name] = vs
		}
	}
	want := map[string][]string{}
	put := func(name, v string) {
		if v != "" {
			want[name] = []string{v}
		}
	}
	put("urn:oid:0.9.2342.19200300.100.1.1", s.UserName)
	put("urn:oid:0.9.2342.19200300.100.1.3", s.Email)
	// eduPersonPrincipalName is the session's principal name; only a session without one gets its e-mail address there (documented legacy)
	if s.EPPN != "" {
		put("urn:oid:1.3.6.1.4.1.5923.1.1.1.6", s.EPPN)
	} else {
		put("urn:oid:1.3.6.1.4.1.5923.1.1.1.6", s.Email)
	}
	put("urn:oid:2.5.4.4", s.SN)
	put("urn:oid:2.5.4.42", s.GN)
	put("urn:oid:2.5.4.3", s.CN)
	put("urn:oid:1.3.6.1.4.1.5923.1.1.1.9", s.Aff)
	put("urn:oasis:names:tc:SAML:attribute:subject-id", s.SubjectID)
	if len(s.Groups) > 0 {
		want["urn:oid:1.3.6.1.4.1.5923.1.1.1.1"] = s.Groups
	}
	custom := map[string]bool{}
	for _, ca := range s.Custom {
		custom[ca.Name] = true
	}
	for name, vs := range want {
		if custom[name] {
			continue // a custom attribute of the same name may precede it
		}
		got := byName[name]
		if strings.Join(got, "\x00") != strings.Join(vs, "\x00") || len(got) != len(vs) {
			return fmt.Sprintf("attribute %s: %q came back as %q", name, vs, got)
		}
	}
	return ""
}

func mdProjection(md *saml.EntityDescriptor) string {
	t := []string{"ok", encStr(md.EntityID), fmt.Sprint(len(md.SPSSODescriptors))}
	for _, d := range md.SPSSODescriptors {
		t = append(t, fmt.Sprint(len(d.AssertionConsumerServices)))
		for _, e := range d.AssertionConsumerServices {
			t = append(t, encStr(e.Binding), encStr(e.Location), fmt.Sprint(e.Index))
			t = append(t, optBoolToks(e.IsDefault)...)
		}
		t = append(t, fmt.Sprint(len(d.KeyDescriptors)))
		for _, k := range d.KeyDescriptors {
			t = append(t, encStr(k.Use), fmt.Sprint(len(k.KeyInfo.X509Data.X509Certificates)))
			for _, x := range k.KeyInfo.X509Data.X509Certificates {
				t = append(t, encStr(x.Data))
			}
		}
		t = append(t, fmt.Sprint(len(d.AttributeConsumingServices)))
	}
	return strings.Join(t, " ")
}

func (c *Ctx) pubToks(cfg e2eCfg, sp *saml.ServiceProvider) []string {
	t := []string{encStr(cfg.EntityID), encStr(sp.MetadataURL.String()), encStr(sp.AcsURL.String())}
	isRSA := false
	if sp.Certificate != nil {
		t = append(t, "+", encStr(base64.StdEncoding.EncodeToString(sp.Certificate.Raw)))
		_, isRSA = sp.Certificate.PublicKey.(*rsa.PublicKey)
	} else {
		t = append(t, "-")
	}
	return append(t, encBool(isRSA), encBool(cfg.SigMethod != ""))
}

func spSigMethodFor(key string, c *Ctx) string {
	switch key {
	case "sp", "sp2":
		return c.pick("", dsig.RSASHA1SignatureMethod, dsig.RSASHA256SignatureMethod, dsig.RSASHA512SignatureMethod)
	case "ec256", "ec384":
		return c.pick("", dsig.ECDSASHA256SignatureMethod, dsig.ECDSASHA384SignatureMethod)
	}
	return ""
}

// e2e runs one round trip and emits the case. crInAttr says whether strings in XML attribute positions may hold a CR.
func (c *Ctx) e2e(cfg e2eCfg, conf idpConf, s sessS) {
	delay, skew := int64(90000), int64(180000)
	saml.MaxIssueDelay = time.Duration(delay) * time.Millisecond
	saml.MaxClockSkew = time.Duration(skew) * time.Millisecond
	saml.StatusSuccess = "urn:oasis:names:tc:SAML:2.0:status:Success"
	t0 := ms(baseTime)
	reqNow, now, t := t0+300, t0+310, t0+700
	cur := time.UnixMilli(t0).UTC()
	saml.TimeNow = func() time.Time { return cur }
	saml.Clock = dsig.NewFakeClockAt(cur)

	idp := c.newIDPX(nil, s.real(), conf)
	var impl, orc string
	var spx *saml.ServiceProvider
	reqID := ""
	var mdImpl string
	identityNote := ""
	impl = safely(func() string {
		idpMD, err := publish(idp.Metadata())
		if err != nil {
			return "err idp-metadata"
		}
		sp := c.buildSP(cfg, idpMD)
		spx = sp
		spMD, err := publish(sp.Metadata())
		if err != nil {
			return "err sp-metadata"
		}
		mdImpl = mdProjection(spMD)
		idp.ServiceProviderProvider = singleSP{spMD.EntityID, spMD}
		// the SP makes its request at t0
		var hr *http.Request
		if cfg.Binding == "redirect" {
			req, err := sp.MakeAuthenticationRequest(sp.GetSSOBindingLocation(saml.HTTPRedirectBinding), saml.HTTPRedirectBinding, saml.HTTPPostBinding)
			if err != nil {
				return "err sp-request"
			}
			reqID = req.ID
			u, err := req.Redirect("relay", sp)
			if err != nil {
				return "err sp-request"
			}
			hr = httptest.NewRequest("GET", u.String(), nil)
		} else {
			req, err := sp.MakeAuthenticationRequest(sp.GetSSOBindingLocation(saml.HTTPPostBinding), saml.HTTPPostBinding, saml.HTTPPostBinding)
			if err != nil {
				return "err sp-request"
			}
			reqID = req.ID
			doc := etree.NewDocument()
			doc.SetRoot(req.Element())
			buf, _ := doc.WriteToBytes()
			form := url.Values{"SAMLRequest": {base64.StdEncoding.EncodeToString(buf)}, "RelayState": {"relay"}}
			hr = httptest.NewRequest("POST", idp.SSOURL.String(), strings.NewReader(form.Encode()))
			hr.Header.Set("Content-Type", "application/x-www-form-urlencoded")
		}
		// the IdP receives it at reqNow and issues at now
		saml.TimeNow = steppingClock(reqNow, now)
		w := httptest.NewRecorder()
		idp.ServeSSO(w, hr)
		if w.Code != 200 {
			return fmt.Sprintf("err idp-http-%d", w.Code)
		}
		body := w.Body.String()
		m := formActionRe.FindStringSubmatch(body)
		v := samlRespRe.FindStringSubmatch(body)
		if m == nil || v == nil {
			return "err idp-noform"
		}
		// the SP consumes it at t
		cur = time.UnixMilli(t).UTC()
		saml.TimeNow = func() time.Time { return cur }
		saml.Clock = dsig.NewFakeClockAt(cur)
		form := url.Values{"SAMLResponse": {html.UnescapeString(v[1])}, "RelayState": {"relay"}}
		pr := httptest.NewRequest("POST", html.UnescapeString(m[1]), strings.NewReader(form.Encode()))
		pr.Header.Set("Content-Type", "application/x-www-form-urlencoded")
		if err := pr.ParseForm(); err != nil {
			return "err harness-form"
		}
		a, err := sp.ParseResponse(pr, []string{reqID})
		if err != nil {
			msg := err.Error()
			if ie, ok := err.(*saml.InvalidResponseError); ok && ie.PrivateErr != nil {
				msg = ie.PrivateErr.Error()
			}
			orc = "SP rejected the IdP's response: " + msg
			return "err sp-rejects"
		}
		raw, _ := base64.StdEncoding.DecodeString(html.UnescapeString(v[1]))
		enc := bytes.Contains(raw, []byte("EncryptedAssertion"))
		identityNote = identityDiff(a, s)
		nid := ""
		if a.Subject != nil && a.Subject.NameID != nil {
			nid = a.Subject.NameID.Value
		}
		return strings.Join(append([]string{"ok", encBool(enc), encStr(nid)}, attrsToks(a)...), " ")
	})
	// direct oracle: accepted, and identity exact (computed from the session, not from the model)
	if strings.HasPrefix(impl, "panic") {
		orc = "key=c07-panic " + impl
	} else if strings.HasPrefix(impl, "err") {
		key := "c07-not-accepted"
		bad := false
		for _, x := range s.attrPositionStrings() {
			if strings.Contains(x, "\r") {
				bad = true
			}
		}
		if bad {
			key = "c07-cr-in-xml-attribute"
		}
		orc = "key=" + key + " round trip failed (" + impl + ") " + orc + " sp=" + fmt.Sprintf("%+v", cfg)
	} else if identityNote != "" {
		key := "c07-identity-altered"
		for _, x := range s.attrPositionStrings() {
			if strings.Contains(x, "\r") {
				key = "c07-cr-in-xml-attribute"
			}
		}
		orc = "key=" + key + " " + identityNote
	}
	if spx == nil {
		spx = c.buildSP(cfg, &saml.EntityDescriptor{})
	}
	usable := cfg.KeyName == "sp" || cfg.KeyName == "sp2"
	toks := c.pubToks(cfg, spx)
	toks = append(toks, encStr(idpSSOURL), encStr(idpMetadataURL), encInt(delay), encInt(skew), encBool(usable),
		encStr(reqID), encInt(t0), encStr(map[bool]string{true: idpSSOURL, false: idpSSOURL}[true]), encInt(reqNow), encInt(now), encInt(t), encBool(cfg.AllowIDP))
	toks = append(toks, s.toks()...)
	c.count("c07-sp-key", cfg.KeyName)
	c.count("c07-sp-binding", cfg.Binding+map[bool]string{true: "+signed", false: ""}[cfg.SigMethod != ""])
	c.count("c07-idp-method", map[bool]string{true: "signer:", false: "key:"}[conf.UseSigner]+conf.Method)
	c.count("c07-entity-id", map[bool]string{true: "set", false: "unset"}[cfg.EntityID != ""])
	c.emit("e2e", toks, impl, orc)
	if mdImpl != "" && c.n%7 == 0 {
		c.emit("spmd", c.pubToks(cfg, spx), mdImpl, "")
	}
}

func (c *Ctx) genC07() {
	c.e2eKeyRotation()
	// 1. character layer: etree writer vs model, encoding/xml reader vs model
	nchar := 1500
	if !c.quick() {
		nchar = 40000
	}
	modes := []struct {
		name string
		ws   etree.WriteSettings
	}{{"normal", etree.WriteSettings{}}, {"text", etree.WriteSettings{CanonicalText: true}}, {"attr", etree.WriteSettings{CanonicalAttrVal: true}}}
	for i := 0; i < nchar; i++ {
		s := c.hostile(true)
		if c.chance(0.2) { // arbitrary code points, including ones outside the XML Char production
			var rs []rune
			for j := c.rng.Intn(6); j >= 0; j-- {
				rs = append(rs, []rune{0, 1, 8, 9, 10, 11, 13, 0x1f, 0x20, 0x7f, 0x85, 0xd7ff, 0xe000, 0xfffd, 0xfffe, 0xffff, 0x10000, 0x10ffff, rune(c.rng.Intn(0x3000))}[c.rng.Intn(19)])
			}
			s = string(rs)
		}
		m := modes[c.rng.Intn(3)]
		// writer
		doc := etree.NewDocument()
		doc.WriteSettings = m.ws
		el := doc.CreateElement("a")
		isAttr := m.name == "attr" || (m.name == "normal" && c.chance(0.5))
		if isAttr {
			el.CreateAttr("x", s)
		} else {
			el.SetText(s)
		}
		out, _ := doc.WriteToString()
		var esc string
		if isAttr {
			esc = strings.TrimSuffix(strings.TrimPrefix(out, `<a x="`), `"/>`)
		} else if s == "" {
			esc = ""
		} else {
			esc = strings.TrimSuffix(strings.TrimPrefix(out, `<a>`), `</a>`)
		}
		modeTok := m.name
		if m.name == "normal" && !isAttr || m.name == "text" {
			// same escape function, mode selected by settings: text nodes use normal or canonText
		}
		c.count("c07-writer-mode", modeTok+map[bool]string{true: "/attr", false: "/text"}[isAttr])
		if (m.name == "attr" && !isAttr) || (m.name == "text" && isAttr) {
			continue
		}
		c.emit("xmlesc", []string{modeTok, encStr(s)}, "ok "+encStr(esc), "")
		// the library's own writer (hook VerifXMLToBytes): attribute value and character data
		{
			d2 := etree.NewDocument()
			e2 := d2.CreateElement("a")
			e2.CreateAttr("x", s)
			e2.SetText(s)
			out2, err := saml.VerifXMLToBytes(d2)
			if err == nil {
				o := string(out2)
				if strings.HasPrefix(o, `<a x="`) {
					o = strings.TrimPrefix(o, `<a x="`)
					if q := strings.Index(o, `"`); q >= 0 {
						av := o[:q]
						rest := o[q+1:]
						tv := ""
						if strings.HasPrefix(rest, ">") {
							tv = strings.TrimSuffix(strings.TrimPrefix(rest, ">"), "</a>")
						}
						c.emit("xmlesc", []string{"attrcr", encStr(s)}, "ok "+encStr(av), "")
						c.emit("xmlesc", []string{"textcr", encStr(s)}, "ok "+encStr(tv), "")
					}
				}
			}
		}
	}
	// the bytes the library's writer returns belong to the caller: writing further documents leaves them alone
	{
		why := ""
		var held [][]byte
		var snaps [][]byte
		for i := 0; i < 6 && why == ""; i++ {
			d := etree.NewDocument()
			e := d.CreateElement("doc")
			e.CreateAttr("n", fmt.Sprint(i))
			e.SetText(strings.Repeat(fmt.Sprintf("document-%d ", i), 3+i%2))
			out, err := saml.VerifXMLToBytes(d)
			if err != nil {
				why = "key=c07-writer-output-unstable the writer failed: " + err.Error()
				break
			}
			held = append(held, out)
			snaps = append(snaps, append([]byte{}, out...))
			for j := range held {
				if !bytes.Equal(held[j], snaps[j]) {
					why = fmt.Sprintf("key=c07-writer-output-unstable the bytes returned for document %d changed when document %d was written: now %q", j, i, held[j])
					break
				}
			}
		}
		c.emitOneWay("writerstable", nil, "done", why)
	}
	// reader: arbitrary inputs with references, raw CR, ]]>, illegal characters
	pieces := []string{"&amp;", "&lt;", "&gt;", "&apos;", "&quot;", "&#xD;", "&#13;", "&#x0;", "&#xD800;", "&#x110000;", "&#99999999999999999999;", "&#x;", "&#;", "&;", "&amp", "&bogus;", "&#xZ;", "&#X41;", "&#x41;", "&#065;",
		"\r", "\n", "\r\n", "\t", "]]>", "]]", ">", "]", "a", "b", " ", "\"", "'", "\x01", "￾", "\U00010000", "&", ";", "#", "x", "&#x00000000000000000041;", "&a.b-c;", "&lt", "&l t;"}
	for i := 0; i < nchar; i++ {
		var sb strings.Builder
		for j := c.rng.Intn(7); j >= 0; j-- {
			sb.WriteString(pieces[c.rng.Intn(len(pieces))])
		}
		in := sb.String()
		attr := c.chance(0.5)
		var docStr string
		tail := c.pick("", "rest", "&amp;x")
		if attr {
			docStr = `<a x="` + in + `"` + "/>"
		} else {
			docStr = `<a>` + in + `</a>`
		}
		_ = tail
		var v struct {
			X string `xml:"x,attr"`
			T string `xml:",chardata"`
		}
		err := xml.Unmarshal([]byte(docStr), &v)
		kind := "text"
		var impl string
		if attr {
			kind = "attr"
		}
		if err != nil {
			impl = "err"
		} else if attr {
			impl = "ok " + encStr(v.X)
		} else {
			impl = "ok " + encStr(v.T)
		}
		// the model reads up to the terminator and reports the unread length; feed it the same tail
		var modelIn string
		if attr {
			if strings.Contains(in, `"`) {
				continue // the attribute would end early; not a single value
			}
			modelIn = in + `"/>`
			if impl != "err" {
				impl += " 2"
			}
		} else {
			if strings.Contains(in, "<") {
				continue
			}
			modelIn = in + `</a>`
			if impl != "err" {
				impl += " 4"
			}
		}
		c.count("c07-reader", kind+"/"+strings.Fields(impl)[0])
		c.emit("xmlread", []string{kind, encStr(modelIn)}, impl, "")
	}

	// 2. round trips
	n := 260
	if !c.quick() {
		n = 5000
	}
	keys := []string{"sp", "sp", "sp2", "ec256", "ec384", "none"}
	for i := 0; i < n; i++ {
		cfg := e2eCfg{KeyName: keys[c.rng.Intn(len(keys))], Binding: c.pick("redirect", "post"), AllowIDP: c.chance(0.2)}
		if c.chance(0.5) {
			cfg.EntityID = "https://sp.example.com/entity"
		}
		cfg.SigMethod = spSigMethodFor(cfg.KeyName, c)
		level := 1 + c.rng.Intn(2)
		c.e2e(cfg, c.randConf(), c.randSession(level, c.chance(0.4)))
	}
	// unconditional single-dimension sweeps: every hostile piece alone in NameID and in one attribute value, encrypted and not
	for _, p := range hostilePieces {
		for _, k := range []string{"sp", "none"} {
			s := sessS{NameID: "a" + p + "b", Index: "idx", UserName: p, Groups: []string{p + "g"}, Custom: []sessAttr{{Friendly: "f", Name: "n", Format: "urn:x", Values: []string{p, " " + p + " "}}}}
			c.e2e(e2eCfg{KeyName: k, Binding: "redirect"}, idpConf{}, s)
			// the same piece in the XML attribute positions (attribute names, session index, NameID format)
			s2 := sessS{NameID: "alice", NameIDFormat: "f" + p, Index: "i" + p, UserName: "u", Custom: []sessAttr{{Friendly: p + "f", Name: "n" + p, Format: p, Values: []string{"v"}}}}
			c.e2e(e2eCfg{KeyName: k, Binding: "post"}, idpConf{}, s2)
		}
	}
}

// ---------- C08 ----------

// countingReader hands out a stream in which every aligned 4-byte word is its own offset, so any
// 16-byte window identifies where it came from; it records every Read with the package that asked.
type countingReader struct {
	off   int
	reads []readRec
}

type readRec struct {
	off, n int
	origin string // lib | stdlib
}

func (r *countingReader) Read(p []byte) (int, error) {
	origin := "lib"
	pcs := make([]uintptr, 12)
	nf := runtime.Callers(2, pcs)
	frames := runtime.CallersFrames(pcs[:nf])
	for {
		f, more := frames.Next()
		if strings.HasPrefix(f.Function, "crypto/") || strings.HasPrefix(f.Function, "io.") {
			if strings.HasPrefix(f.Function, "crypto/") {
				origin = "stdlib"
			}
		} else if f.Function != "" {
			break
		}
		if !more {
			break
		}
	}
	for i := range p {
		o := r.off + i
		w := uint32(o / 4)
		p[i] = byte(w >> (8 * uint(3-o%4)))
	}
	// make byte 0 of each word non-trivial so that windows are unique even at low offsets
	r.reads = append(r.reads, readRec{r.off, len(p), origin})
	r.off += len(p)
	return len(p), nil
}

func (r *countingReader) find(window []byte) int {
	if len(window) < 8 {
		return -1
	}
	for start := 0; start+len(window) <= r.off; start++ {
		ok := true
		for i := range window {
			o := start + i
			w := uint32(o / 4)
			if window[i] != byte(w>>(8*uint(3-o%4))) {
				ok = false
				break
			}
		}
		if ok {
			return start
		}
	}
	return -1
}

// clearScan looks for any string of the session in the emitted bytes, in the encodings a string could travel in.
func clearScan(raw []byte, body string, s sessS) string {
	for _, v := range s.strings() {
		if len(v) < 6 {
			continue // too short to tell from structure
		}
		var eb bytes.Buffer
		xml.EscapeText(&eb, []byte(v))
		forms := map[string]string{"raw": v, "xml-escaped": eb.String(), "base64": base64.StdEncoding.EncodeToString([]byte(v)), "url-escaped": url.QueryEscape(v), "html-escaped": html.EscapeString(v)}
		for name, f := range forms {
			if bytes.Contains(raw, []byte(f)) || strings.Contains(body, f) {
				return fmt.Sprintf("session string %q appears in clear (%s)", v, name)
			}
		}
	}
	return ""
}

func secretSession(c *Ctx) sessS {
	tag := func(k string) string { return fmt.Sprintf("SECRET-%s-%06d", k, c.rng.Intn(1000000)) }
	s := sessS{NameID: tag("nameid"), Index: tag("index"), UserName: tag("uid"), Email: tag("mail") + "@example.com", CN: tag("cn"), Groups: []string{tag("group")}}
	if c.chance(0.5) {
		s.SubjectID = tag("subject")
		s.Custom = []sessAttr{{Friendly: "f", Name: "custom", Format: "urn:x", Values: []string{tag("custom")}}}
	}
	return s
}

// wrongRecipient: the content key must be wrapped for the certificate the SP advertises for encryption — the first
// certificate of its first use="encryption" descriptor, else of its first unlabeled descriptor that has one.
func wrongRecipient(raw []byte, keys []mdKey) string {
	want := ""
	for _, k := range keys {
		if k.Use == "encryption" {
			if len(k.Certs) > 0 {
				want = k.Certs[0]
			}
			break
		}
	}
	if want == "" {
		for _, k := range keys {
			if k.Use == "" && len(k.Certs) > 0 && k.Certs[0] != "" {
				want = k.Certs[0]
				break
			}
		}
	}
	strip := func(s string) string { return regexp.MustCompile(`\s+`).ReplaceAllString(s, "") }
	doc := etree.NewDocument()
	if doc.ReadFromBytes(raw) != nil {
		return ""
	}
	x := doc.FindElement("//EncryptedKey/KeyInfo/X509Data/X509Certificate")
	if x == nil {
		return "EncryptedKey names no recipient certificate"
	}
	if strip(x.Text()) != strip(want) {
		return "the content key is wrapped for a certificate other than the one the SP advertises for encryption"
	}
	return ""
}

func advertises(keys []mdKey) bool {
	for _, k := range keys {
		if k.Use == "encryption" {
			return true
		}
		if k.Use == "" && len(k.Certs) > 0 && k.Certs[0] != "" {
			return true
		}
	}
	return false
}

// c08ReRegistration: the bundled server — a service registers without an encryption key, then again (same name, same entity ID)
// with one, then with another: each reply follows the metadata registered at that moment
func (c *Ctx) c08ReRegistration() {
	const entity = "https://spa.example.com/md"
	md := func(keyName string) []byte {
		kd := ""
		if keyName != "" {
			kd = `<KeyDescriptor use="encryption"><KeyInfo xmlns="http://www.w3.org/2000/09/xmldsig#"><X509Data><X509Certificate>` +
				base64.StdEncoding.EncodeToString(c.key(keyName).Cert.Raw) + `</X509Certificate></X509Data></KeyInfo></KeyDescriptor>`
		}
		return []byte(`<EntityDescriptor xmlns="urn:oasis:names:tc:SAML:2.0:metadata" entityID="` + entity + `"><SPSSODescriptor protocolSupportEnumeration="urn:oasis:names:tc:SAML:2.0:protocol">` + kd +
			`<AssertionConsumerService Binding="` + saml.HTTPPostBinding + `" Location="` + entity + `/acs" index="1"/></SPSSODescriptor></EntityDescriptor>`)
	}
	now := baseTime
	saml.TimeNow = func() time.Time { return now }
	saml.RandReader = &detReader{c: c}
	xmlenc.RandReader = &detReader{c: c}
	st := &samlidp.MemoryStore{}
	must(st.Put("/sessions/sess1", &saml.Session{ID: "sess1", NameID: "alice", UserName: "alice", ExpireTime: now.Add(time.Hour)}))
	k := c.key("idp")
	srv, err := samlidp.New(samlidp.Options{URL: mustURL("https://idp.example.com"), Key: k.Key, Certificate: k.Cert, Store: st, Logger: logger.DefaultLogger})
	must(err)
	sso := func() string {
		spk := c.key("sp")
		s := &saml.ServiceProvider{EntityID: entity, Key: spk.Key, Certificate: spk.Cert, MetadataURL: mustURL(entity), AcsURL: mustURL(entity + "/acs"), IDPMetadata: srv.IDP.Metadata()}
		ar, err := s.MakeAuthenticationRequest("https://idp.example.com/sso", saml.HTTPRedirectBinding, saml.HTTPPostBinding)
		must(err)
		u, err := ar.Redirect("rs", s)
		must(err)
		r := httptest.NewRequest("GET", "/sso?"+u.RawQuery, nil)
		r.AddCookie(&http.Cookie{Name: "session", Value: "sess1"})
		rec := httptest.NewRecorder()
		srv.ServeHTTP(rec, r)
		o, _ := observeForm(rec.Body.Bytes())
		v, _ := inputVal(o, "SAMLResponse")
		x, _ := base64.StdEncoding.DecodeString(v)
		switch {
		case bytes.Contains(x, []byte("<saml:Assertion")):
			return "plaintext"
		case bytes.Contains(x, []byte("EncryptedAssertion")):
			doc := etree.NewDocument()
			if doc.ReadFromBytes(x) == nil && doc.Root() != nil {
				if ed := doc.Root().FindElement("//EncryptedAssertion/EncryptedData"); ed != nil {
					for _, kn := range []string{"sp", "sp2"} {
						if p, err := xmlenc.Decrypt(c.key(kn).Key, ed); err == nil && bytes.Contains(p, []byte("Assertion")) {
							return "encrypted-to-" + kn
						}
					}
				}
			}
			return "encrypted-to-nobody"
		}
		return fmt.Sprintf("no-response-%d", rec.Code)
	}
	put := func(keyName string) {
		rec := httptest.NewRecorder()
		srv.ServeHTTP(rec, httptest.NewRequest("PUT", "/services/svc1", bytes.NewReader(md(keyName))))
	}
	var got []string
	want := []string{"plaintext", "encrypted-to-sp", "encrypted-to-sp2", "plaintext", "encrypted-to-sp"}
	for _, kn := range []string{"", "sp", "sp2", "", "sp"} {
		put(kn)
		got = append(got, safely(sso))
	}
	orc := ""
	if strings.Join(got, ",") != strings.Join(want, ",") {
		orc = "key=re-registered-encryption-key after PUT /services/svc1 with no key, the SP key, another key, no key, the SP key the replies were " + strings.Join(got, ",") + " (want " + strings.Join(want, ",") + ")"
	}
	c.count("c08-re-registration", "5 steps")
	c.emitOneWay("reregister", nil, strings.Join(got, ","), orc)
}

func (c *Ctx) genC08() {
	defer c.c08ReRegistration()
	choices := c.certChoices()
	// 1. key-descriptor layouts through the real ServeIDPInitiated / ServeSSO
	n := 500
	if !c.quick() {
		n = 9000
	}
	var layouts [][]mdKey
	// unconditional: every single descriptor (use × certificate choice), and every ordered pair of a small basis
	for _, use := range []string{"encryption", "", "signing"} {
		layouts = append(layouts, []mdKey{{Use: use}})
		for _, ch := range choices {
			layouts = append(layouts, []mdKey{{Use: use, Certs: []string{ch.data}}})
			layouts = append(layouts, []mdKey{{Use: use, Certs: []string{ch.data, choices[0].data}}})
		}
	}
	basis := []mdKey{{Use: "encryption", Certs: []string{choices[0].data}}, {Use: "encryption", Certs: []string{""}}, {Use: "encryption"}, {Use: "", Certs: []string{choices[1].data}},
		{Use: "", Certs: []string{""}}, {Use: "signing", Certs: []string{choices[0].data}}, {Use: "encryption", Certs: []string{choices[6].data}}, {Use: "", Certs: []string{choices[3].data}}}
	for _, a := range basis {
		for _, b := range basis {
			layouts = append(layouts, []mdKey{a, b})
		}
	}
	for i := 0; i < n; i++ {
		layouts = append(layouts, c.randKeys(choices))
	}
	// the same descriptors with EncryptionMethod children that do / do not name the cipher the IdP uses
	for _, methods := range [][]string{{"http://www.w3.org/2001/04/xmlenc#aes256-cbc", "http://www.w3.org/2001/04/xmlenc#rsa-oaep-mgf1p"}, {"http://www.w3.org/2009/xmlenc11#aes128-gcm"},
		{"http://www.w3.org/2001/04/xmlenc#rsa-oaep-mgf1p"}, {"http://www.w3.org/2001/04/xmlenc#aes128-cbc"}, {"urn:unknown:cipher"}} {
		for _, use := range []string{"encryption", ""} {
			layouts = append(layouts, []mdKey{{Use: use, Certs: []string{choices[0].data}, Methods: methods}})
			layouts = append(layouts, []mdKey{{Use: "signing", Certs: []string{choices[1].data}}, {Use: use, Certs: []string{choices[0].data}, Methods: methods}})
		}
	}
	for li, keys := range layouts {
		sc := c.baseServeCase(choices)
		id := sc.regOrder[0]
		md := mdEntityX{EntityID: id, Descs: []mdDescX{{mdDesc: mdDesc{ACS: []mdEndpoint{{Binding: saml.HTTPPostBinding, Location: "https://sp.example.com/acs1", Index: 1}}, Keys: keys}}}}
		// a second role descriptor with its own endpoint and its own (other) key layout, before or after: the key that
		// counts is the one of the role whose endpoint receives the response
		if li%4 == 3 {
			other := mdDescX{mdDesc: mdDesc{ACS: []mdEndpoint{{Binding: saml.HTTPPostBinding, Location: "https://sp.example.com/acs2", Index: 2}}, Keys: layouts[(li*7+1)%len(layouts)]}}
			if li%8 == 3 {
				md.Descs = append(md.Descs, other)
			} else {
				md.Descs = append([]mdDescX{other}, md.Descs...)
			}
			c.count("c08-role-descriptors", "2")
		} else {
			c.count("c08-role-descriptors", "1")
		}
		keys = md.Descs[0].Keys // (no default endpoint, no ACS named in the request: the first role's first usable endpoint is chosen)
		sc.reg[id] = regEntryX{kind: "f", md: md}
		sc.sess = secretSession(c)
		sc.conf = c.randConf()
		if c.chance(0.5) {
			sc.mode = "init"
			sc.spID = id
		} else {
			sc.mode = "sso"
			sc.a = c.randAreq(sc)
			sc.a.Issuer = &id
			sc.a.ACSURL, sc.a.ACSIndex = "", ""
			ii := sc.reqNow - 1000
			sc.a.II = &ii
		}
		saml.RandReader = rand.Reader
		xmlenc.RandReader = rand.Reader
		d, impl, note := c.serveWithBody(sc)
		orc := ""
		adv := advertises(keys)
		c.count("c08-advertises", encBool(adv))
		if d.dec != nil {
			c.count("c08-outcome", map[bool]string{true: "encrypted", false: "plaintext"}[d.dec.encrypted])
			if adv && !d.dec.encrypted {
				orc = "key=c08-downgrade metadata advertises an encryption key but the assertion was sent in clear"
			} else if d.dec.assertion == nil {
				orc = "key=c08-unrecoverable " + note
			} else if d.dec.encrypted {
				if w := wrongRecipient(d.dec.xml, keys); w != "" {
					orc = "key=c08-wrong-recipient " + w
				} else if w := clearScan(d.dec.xml, d.body, sc.sess); w != "" {
					orc = "key=c08-clear-string " + w
				} else if plainWithOther(c, d.dec.xml) {
					orc = "key=c08-foreign-key the assertion decrypts with a key that is not the SP's"
				}
			}
		} else {
			c.count("c08-outcome", "error")
			// the response could not be built: asking the same request object again (a handler that logs the error and
			// falls through to WriteResponse, a retry) must not produce the assertion in clear either
			if sc.mode == "sso" && adv {
				if w := c.retrySameRequest(sc); w != "" {
					orc = "key=c08-clear-after-error " + w
				}
			}
		}
		c.emit("idpserve", sc.toks(), impl, orc)
	}

	c.encKeyRollover()
	c.defaultRandomSource()
	c.randomSourceFaults()
	// 2. freshness: runs of encrypted responses under a counting reader; key and IV located in the stream
	runs := 12
	if !c.quick() {
		runs = 150
	}
	for r := 0; r < runs; r++ {
		cr := &countingReader{}
		cs := &countingReader{}
		xmlenc.RandReader = cr
		saml.RandReader = cs
		k := 2 + c.rng.Intn(5)
		var keyOffs, ivOffs, kts []string
		orc := ""
		seen := map[string]bool{}
		prevReads := 0
		for j := 0; j < k; j++ {
			sc := c.baseServeCase(choices)
			id := sc.regOrder[0]
			sc.reg[id] = regEntryX{kind: "f", md: mdEntityX{EntityID: id, Descs: []mdDescX{{mdDesc: mdDesc{ACS: []mdEndpoint{{Binding: saml.HTTPPostBinding, Location: "https://sp.example.com/acs1", Index: 1}},
				Keys: []mdKey{{Use: "encryption", Certs: []string{choices[0].data}}}}}}}}
			sc.sess = secretSession(c)
			sc.mode, sc.spID = "init", id
			d, _, note := c.serveWithBody(sc)
			if d.dec == nil || !d.dec.encrypted || d.dec.keyBytes == nil || d.dec.iv == nil {
				orc = "key=c08-fresh-undecodable " + note
				break
			}
			ko, io_ := cr.find(d.dec.keyBytes), cr.find(d.dec.iv)
			keyOffs = append(keyOffs, fmt.Sprintf("%d:%d", ko, len(d.dec.keyBytes)))
			ivOffs = append(ivOffs, fmt.Sprintf("%d:%d", io_, len(d.dec.iv)))
			kt := 0
			for _, rr := range cr.reads[prevReads:] {
				if rr.origin == "stdlib" {
					kt += rr.n
				}
			}
			prevReads = len(cr.reads)
			kts = append(kts, fmt.Sprint(kt))
			for _, x := range []string{string(d.dec.keyBytes), string(d.dec.iv)} {
				if seen[x] {
					orc = "key=c08-reuse a content key or IV was used twice"
				}
				seen[x] = true
			}
		}
		xmlenc.RandReader = rand.Reader
		saml.RandReader = rand.Reader
		var aid, rid []string
		for i, rr := range cs.reads {
			x := fmt.Sprintf("%d:%d", rr.off, rr.n)
			if i%2 == 0 {
				aid = append(aid, x)
			} else {
				rid = append(rid, x)
			}
		}
		impl := strings.Join(append(append(append(append([]string{"ok", "key"}, keyOffs...), append([]string{"iv"}, ivOffs...)...), append([]string{"aid"}, aid...)...), append([]string{"rid"}, rid...)...), " ")
		c.units += k
		c.emit("randlayout", append([]string{fmt.Sprint(len(kts))}, kts...), impl, orc)
	}
	// with the real random source: no two responses share a key or an IV
	{
		seen := map[string]bool{}
		orc := ""
		m := 40
		if !c.quick() {
			m = 600
		}
		for j := 0; j < m; j++ {
			sc := c.baseServeCase(choices)
			id := sc.regOrder[0]
			sc.reg[id] = regEntryX{kind: "f", md: mdEntityX{EntityID: id, Descs: []mdDescX{{mdDesc: mdDesc{ACS: []mdEndpoint{{Binding: saml.HTTPPostBinding, Location: "https://sp.example.com/acs1", Index: 1}},
				Keys: []mdKey{{Use: "encryption", Certs: []string{choices[0].data}}}}}}}}
			sc.sess = secretSession(c)
			sc.mode, sc.spID = "init", id
			d, _, _ := c.serveWithBody(sc)
			if d.dec != nil && d.dec.keyBytes != nil {
				for _, x := range []string{string(d.dec.keyBytes), string(d.dec.iv)} {
					if seen[x] {
						orc = "key=c08-reuse a content key or IV repeated under crypto/rand"
					}
					seen[x] = true
				}
			}
		}
		c.units += m
		c.emitOneWay("c08-distinct", []string{fmt.Sprint(m)}, "ok", orc)
	}

	// 3. SP side: encrypted assertions go through the same checks (struct-level model, real XML and crypto)
	c.genC08SP()
}

type served struct {
	dec  *decoded
	body string
}

func (c *Ctx) serveWithBody(sc *serveCase) (served, string, string) {
	saml.MaxIssueDelay = time.Duration(sc.delay) * time.Millisecond
	saml.MaxClockSkew = time.Duration(sc.skew) * time.Millisecond
	saml.TimeNow = steppingClock(sc.reqNow, sc.now)
	saml.Clock = dsig.NewFakeClockAt(time.UnixMilli(sc.now).UTC())
	idp := c.newIDPX(sc.reg, sc.sess.real(), sc.conf)
	var out served
	note := ""
	impl := safely(func() string {
		w := httptest.NewRecorder()
		if sc.mode == "sso" {
			idp.ServeSSO(w, buildSSORequest(sc.a, c.rng.Intn(6), sc.post))
		} else {
			idp.ServeIDPInitiated(w, httptest.NewRequest("GET", "https://idp.example.com/login/x", nil), sc.spID, "relay")
		}
		if w.Code != 200 {
			return fmt.Sprintf("err http-%d", w.Code)
		}
		out.body = w.Body.String()
		d, n := c.decodeForm(out.body, c.key("idp").Cert, expectedSigAlg(sc.conf.Method), c.key("sp").Key)
		out.dec, note = d, n
		if d == nil || d.assertion == nil {
			if d != nil && d.encrypted {
				// encrypted to a key that is not `sp` (sp2, wrapped …): try the other SP key
				d2, n2 := c.decodeForm(out.body, c.key("idp").Cert, expectedSigAlg(sc.conf.Method), c.key("sp2").Key)
				if d2 != nil && d2.assertion != nil {
					out.dec, note = d2, n2
					return d2.render()
				}
			}
			return "ok-undecodable " + encStr(n)
		}
		return d.render()
	})
	return out, impl, note
}

// retrySameRequest drives one IdpAuthnRequest through the library's own steps (NewIdpAuthnRequest, Validate, the assertion
// maker) and then asks it three times for the response; whatever comes out must not carry a session string in clear
func (c *Ctx) retrySameRequest(sc *serveCase) string {
	saml.MaxIssueDelay = time.Duration(sc.delay) * time.Millisecond
	saml.MaxClockSkew = time.Duration(sc.skew) * time.Millisecond
	saml.TimeNow = steppingClock(sc.reqNow, sc.now)
	saml.Clock = dsig.NewFakeClockAt(time.UnixMilli(sc.now).UTC())
	idp := c.newIDPX(sc.reg, sc.sess.real(), sc.conf)
	why := ""
	res := safely(func() string {
		req, err := saml.NewIdpAuthnRequest(idp, buildSSORequest(sc.a, 0, sc.post))
		if err != nil || req.Validate() != nil {
			return "not-reached"
		}
		var maker saml.AssertionMaker = idp.AssertionMaker
		if maker == nil {
			maker = saml.DefaultAssertionMaker{}
		}
		if err := maker.MakeAssertion(req, sc.sess.real()); err != nil {
			return "not-reached"
		}
		for k := 0; k < 3; k++ {
			w := httptest.NewRecorder()
			if k == 1 {
				_ = req.MakeAssertionEl()
			}
			if err := req.WriteResponse(w); err != nil {
				continue
			}
			body := w.Body.String()
			v, _ := inputValOf([]byte(body), "SAMLResponse")
			raw, _ := base64.StdEncoding.DecodeString(v)
			if x := clearScan(raw, "", sc.sess); x != "" && why == "" {
				why = fmt.Sprintf("after the first attempt failed, attempt %d on the same request emitted a response in which %s", k+1, x)
			}
		}
		return "done"
	})
	c.count("c08-retry-same-request", res)
	if strings.HasPrefix(res, "panic") && why == "" {
		why = "retrying on the same request panicked: " + res
	}
	return why
}

// the library's own random sources, as the packages initialise them (every other case of this harness replaces them by a
// deterministic reader; a deployment does not)
var (
	defaultXmlencRand = xmlenc.RandReader
	defaultSamlRand   = saml.RandReader
)

// defaultRandomSource: "a fresh content-encryption key and IV are drawn for every response" — with the random sources the
// library ships with. Each response's key is unwrapped with the SP key and the IV read from the cipher value: all distinct, and
// none with a tail of zero bytes (a short read of the source leaves the rest of a freshly allocated buffer zero; 6 zero bytes
// at the end of a random value have probability 2^-48).
func (c *Ctx) defaultRandomSource() {
	saved, savedS := xmlenc.RandReader, saml.RandReader
	xmlenc.RandReader, saml.RandReader = defaultXmlencRand, defaultSamlRand
	defer func() { xmlenc.RandReader, saml.RandReader = saved, savedS }()
	n := 400
	if !c.quick() {
		n = 5000
	}
	seen := map[string]bool{}
	why := ""
	spk := c.key("sp")
	res := safely(func() string {
		for i := 0; i < n && why == ""; i++ {
			enc := xmlenc.OAEP()
			enc.BlockCipher = xmlenc.AES128CBC
			enc.DigestMethod = &xmlenc.SHA1
			el, err := enc.Encrypt(spk.Cert, []byte("<a>default random source</a>"), nil)
			if err != nil {
				return "err"
			}
			ek := el.FindElement("./KeyInfo/EncryptedKey")
			if ek == nil {
				return "no-encrypted-key"
			}
			kraw, err := xmlenc.Decrypt(spk.Key, ek)
			if err != nil {
				return "key-unwrap-failed"
			}
			key := kraw
			ct, _ := cipherValueOf(el)
			if len(key) != 16 || len(ct) < 32 {
				return "unexpected-shape"
			}
			iv := ct[:16]
			for name, v := range map[string][]byte{"content-encryption key": key, "IV": iv} {
				if bytes.Equal(v[len(v)-6:], make([]byte, 6)) {
					why = fmt.Sprintf("key=c08-not-fresh:default-source response %d was encrypted under a %s whose last bytes are zero (%x): the library's default random source was read short", i, name, v)
				}
				if seen[name+string(v)] {
					why = fmt.Sprintf("key=c08-not-fresh:default-source response %d re-uses the %s of an earlier response", i, name)
				}
				seen[name+string(v)] = true
			}
		}
		return "done"
	})
	if res != "done" && why == "" {
		why = "key=c08-not-fresh:default-source encrypting with the library's default random source: " + res
	}
	c.count("c08-default-random-source", res)
	c.emitOneWay("defaultrand", []string{fmt.Sprint(n)}, res, why)
}

// failingRand: a random source that delivers `good` bytes and then fails with `err`
type failingRand struct {
	good int
	err  error
}

func (f *failingRand) Read(p []byte) (int, error) {
	n := 0
	for n < len(p) && f.good > 0 {
		p[n] = byte(0x5a ^ f.good)
		n++
		f.good--
	}
	if n == len(p) {
		return n, nil
	}
	return n, f.err
}

// randomSourceFaults: the SP publishes an encryption key and the random source of the encryption fails — at once, or after
// the key, or after key and part of the IV — with errors of every kind (also the "does not exist" kind a missing
// /dev/urandom produces). Whatever happens, the user's strings do not leave in clear: an error reply or an encrypted assertion.
func (c *Ctx) randomSourceFaults() {
	now := baseTime
	saml.TimeNow = func() time.Time { return now }
	saml.Clock = dsig.NewFakeClockAt(now)
	saml.RandReader = &detReader{c: c}
	defer func() { xmlenc.RandReader = &detReader{c: c} }()
	entity := "https://sp.example.com/rand-faults"
	kd := saml.KeyDescriptor{Use: "encryption"}
	kd.KeyInfo.X509Data.X509Certificates = []saml.X509Certificate{{Data: base64.StdEncoding.EncodeToString(c.key("sp").Cert.Raw)}}
	reg := &rollingRegistry{md: &saml.EntityDescriptor{EntityID: entity, SPSSODescriptors: []saml.SPSSODescriptor{{
		SSODescriptor:             saml.SSODescriptor{RoleDescriptor: saml.RoleDescriptor{KeyDescriptors: []saml.KeyDescriptor{kd}}},
		AssertionConsumerServices: []saml.IndexedEndpoint{{Binding: saml.HTTPPostBinding, Location: entity + "/acs", Index: 1}}}}}}
	k := c.key("idp")
	errs := map[string]error{
		"eof":         io.ErrUnexpectedEOF,
		"not-exist":   os.ErrNotExist,
		"path-enoent": &fs.PathError{Op: "open", Path: "/dev/urandom", Err: syscall.ENOENT},
		"wrapped":     fmt.Errorf("reading entropy: %w", fs.ErrNotExist),
		"permission":  os.ErrPermission,
		"plain":       errors.New("entropy source unavailable"),
	}
	var names []string
	for n := range errs {
		names = append(names, n)
	}
	sort.Strings(names)
	for _, name := range names {
		for _, good := range []int{0, 16, 24, 32, 84} {
			idp := &saml.IdentityProvider{Key: k.Key, Certificate: k.Cert, Logger: logger.DefaultLogger, MetadataURL: mustURL(idpMetadataURL), SSOURL: mustURL(idpSSOURL),
				ServiceProviderProvider: reg, SessionProvider: fixedSession{&saml.Session{ID: "sess-q", NameID: "SECRET-nameid", UserName: "SECRET-user", UserEmail: "SECRET-mail@example.com",
					CreateTime: now, ExpireTime: now.Add(time.Hour), Index: "SECRET-index"}}}
			xmlenc.RandReader = &failingRand{good: good, err: errs[name]}
			why := ""
			res := safely(func() string {
				w := httptest.NewRecorder()
				r, _ := http.NewRequest("GET", "https://idp.example.com/login/rand-faults", nil)
				idp.ServeIDPInitiated(w, r, entity, "rs")
				body := w.Body.Bytes()
				clear := bytes.Contains(body, []byte("SECRET-"))
				if v, n := inputValOf(body, "SAMLResponse"); n > 0 {
					raw, _ := base64.StdEncoding.DecodeString(v)
					clear = clear || bytes.Contains(raw, []byte("SECRET-"))
				}
				if clear {
					return fmt.Sprintf("clear-%d", w.Code)
				}
				return fmt.Sprintf("no-clear-%d", w.Code)
			})
			if strings.HasPrefix(res, "clear") || strings.HasPrefix(res, "panic") {
				why = fmt.Sprintf("key=c08-downgrade:random-source-fault the random source of the encryption failed (%s, after %d bytes) and the IdP answered with the user's strings in clear: %s", name, good, res)
			}
			c.count("c08-random-source-fault", name+"/"+strings.SplitN(res, "-", 2)[0])
			c.emitOneWay("randfault", []string{encStr(name), fmt.Sprint(good)}, strings.TrimRight(res, "0123456789"), why)
		}
	}
}

type rollingRegistry struct{ md *saml.EntityDescriptor }

func (r *rollingRegistry) GetServiceProvider(_ *http.Request, id string) (*saml.EntityDescriptor, error) {
	if r.md != nil && r.md.EntityID == id {
		return r.md, nil
	}
	return nil, os.ErrNotExist
}

// encKeyRollover: one IdentityProvider value for the life of a deployment; the registered SP replaces its encryption
// certificate (same entity ID) between responses. Every response must open with the key of the certificate registered
// *at that moment* and with no other — in particular not with the key the SP has just withdrawn.
func (c *Ctx) encKeyRollover() {
	now := baseTime
	saml.TimeNow = func() time.Time { return now }
	saml.Clock = dsig.NewFakeClockAt(now)
	saml.RandReader = &detReader{c: c}
	xmlenc.RandReader = &detReader{c: c}
	entity := "https://sp.example.com/rollover"
	reg := &rollingRegistry{}
	k := c.key("idp")
	idp := &saml.IdentityProvider{Key: k.Key, Certificate: k.Cert, Logger: logger.DefaultLogger, MetadataURL: mustURL(idpMetadataURL), SSOURL: mustURL(idpSSOURL),
		ServiceProviderProvider: reg, SessionProvider: fixedSession{&saml.Session{ID: "sess-r", NameID: "SECRET-nameid", UserName: "alice", CreateTime: now, ExpireTime: now.Add(time.Hour), Index: "idx-r"}}}
	mdFor := func(keyName string) *saml.EntityDescriptor {
		kd := saml.KeyDescriptor{Use: "encryption"}
		kd.KeyInfo.X509Data.X509Certificates = []saml.X509Certificate{{Data: base64.StdEncoding.EncodeToString(c.key(keyName).Cert.Raw)}}
		return &saml.EntityDescriptor{EntityID: entity, SPSSODescriptors: []saml.SPSSODescriptor{{
			SSODescriptor:             saml.SSODescriptor{RoleDescriptor: saml.RoleDescriptor{KeyDescriptors: []saml.KeyDescriptor{kd}}},
			AssertionConsumerServices: []saml.IndexedEndpoint{{Binding: saml.HTTPPostBinding, Location: "https://sp.example.com/rollover/acs", Index: 1}}}}}
	}
	for _, plan := range [][]string{{"sp", "sp2", "sp", "sp2"}, {"sp2", "sp2", "sp"}} {
		reg.md = nil
		idp2 := *idp // a fresh deployment per plan, kept across the rounds of the plan
		why := ""
		var seq []string
		for round, keyName := range plan {
			reg.md = mdFor(keyName)
			seq = append(seq, keyName)
			res := safely(func() string {
				w := httptest.NewRecorder()
				r, _ := http.NewRequest("GET", "https://idp.example.com/login/rollover", nil)
				idp2.ServeIDPInitiated(w, r, entity, "rs")
				if w.Code != 200 {
					return fmt.Sprintf("status-%d", w.Code)
				}
				v, _ := inputValOf(w.Body.Bytes(), "SAMLResponse")
				raw, _ := base64.StdEncoding.DecodeString(v)
				if bytes.Contains(raw, []byte("SECRET-nameid")) {
					return "clear"
				}
				doc := etree.NewDocument()
				if doc.ReadFromBytes(raw) != nil {
					return "unreadable"
				}
				ed := doc.FindElement("//EncryptedData")
				if ed == nil {
					return "no-encrypted-data"
				}
				var opens []string
				for _, kn := range []string{"sp", "sp2", "attacker"} {
					func() {
						defer func() { recover() }()
						if p, err := xmlenc.Decrypt(c.key(kn).Key, ed); err == nil && bytes.Contains(p, []byte("SECRET-nameid")) {
							opens = append(opens, kn)
						}
					}()
				}
				return "opens:" + strings.Join(opens, "+")
			})
			if res != "opens:"+keyName && why == "" {
				why = fmt.Sprintf("key=c08-wrong-recipient:rollover round %d: the SP's registered encryption certificate is %s (after %v), but the emitted response %s", round+1, keyName, seq, res)
			}
			c.count("c08-key-rollover", res)
		}
		c.emitOneWay("keyrollover", encStrListRaw(plan), "done", why)
	}
}

// plainWithOther reports whether the EncryptedData of an emitted response opens with a key other than the recipient's.
func plainWithOther(c *Ctx, raw []byte) bool {
	doc := etree.NewDocument()
	if doc.ReadFromBytes(raw) != nil {
		return false
	}
	ed := doc.FindElement("//EncryptedData")
	if ed == nil {
		return false
	}
	opened := 0
	for _, k := range []string{"sp", "sp2", "attacker", "idp"} {
		ok := false
		func() {
			defer func() { recover() }()
			if _, err := xmlenc.Decrypt(c.key(k).Key, ed); err == nil {
				ok = true
			}
		}()
		if ok {
			opened++
		}
	}
	return opened > 1
}

// genC08SP: responses whose assertion is encrypted to the SP — by the IdP, by an attacker (unsigned or
// signed with a foreign key), tampered — against the struct-level model.
func (c *Ctx) genC08SP() {
	n := 300
	if !c.quick() {
		n = 6000
	}
	now := ms(baseTime)
	cfg := SPCfg{IDPEntity: "https://idp.example.com/saml/metadata", Acs: "https://sp.example.com/saml/acs", MetadataURL: "https://sp.example.com/saml/metadata",
		ReqV: "n", AudV: "n", Delay: 90000, Skew: 180000, Success: "urn:oasis:names:tc:SAML:2.0:status:Success", Trust: []string{"idp"}}
	ids := []string{"id-req-1"}
	for i := 0; i < n; i++ {
		good := func(sig, wrap string) Assn {
			iss := cfg.IDPEntity
			scs := []SConf{{Data: &SCd{IRT: "id-req-1", Recipient: cfg.Acs, NOA: now + 60000}}}
			return Assn{II: now - 1000, Issuer: &iss, Subject: &scs, Cond: &Cond{NB: now - 5000, NOA: now + 60000, Auds: []string{cfg.MetadataURL}}, Ident: fmt.Sprintf("user-%d", i), Sig: sig, Wrap: wrap}
		}
		iss := cfg.IDPEntity
		r := Resp{Dest: cfg.Acs, IRT: "id-req-1", II: now - 500, Issuer: &iss, Status: cfg.Success}
		respSigs := []string{"none", "idp", "attacker"}
		asigs := []string{"none", "idp", "attacker", "idp2"}
		wraps := []string{"p", "e", "e", "b", "e", "b-empty", "b-blank", "b-ivonly", "b-truncated", "b-flipped", "b-nokey", "b-noroot-empty", "b-noroot-space", "b-noroot-comment", "b-noroot-pi", "b-key-empty", "b-key-truncated"}
		r.Sig = respSigs[c.rng.Intn(3)]
		k := 1 + c.rng.Intn(2)
		for j := 0; j < k; j++ {
			a := good(asigs[c.rng.Intn(4)], wraps[c.rng.Intn(len(wraps))])
			// perturb a condition sometimes, identically for encrypted and plaintext
			switch c.rng.Intn(8) {
			case 0:
				a.Cond.NOA = now - cfg.Skew - 1
			case 1:
				(*a.Subject)[0].Data.Recipient = "https://evil.example.com/acs"
			case 2:
				a.Cond.Auds = []string{"https://other.example.com/metadata"}
			case 3:
				(*a.Subject)[0].Data.IRT = "id-other"
			}
			r.Entries = append(r.Entries, a)
		}
		if i < 26 {
			// every malformed-ciphertext / element-free-plaintext flavour at least once, alone and with nothing else wrong
			r.Sig = "none"
			r.Entries = []Assn{good("idp", []string{"b-empty", "b-blank", "b-ivonly", "b-truncated", "b-flipped", "b-nokey", "b", "b-noroot-empty", "b-noroot-space", "b-noroot-comment", "b-noroot-pi", "b-key-empty", "b-key-truncated"}[i%13])}
			if i >= 13 {
				r.Sig = "idp"
			}
		}
		c.count("c08-sp-layout", r.Sig+"/"+r.Entries[0].Sig+"/"+r.Entries[0].Wrap)
		c.runSP(spCase{cfg: cfg, now: now, ids: ids, url: cfg.Acs, r: r, lex: c.rng.Intn(4), entry: c.pick("xml", "post")})
	}
}
