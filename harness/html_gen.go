package main

// C14: emitted HTML forms and metadata endpoint locations.

import (
	"bytes"
	"encoding/xml"
	"fmt"
	"net/http"
	"net/http/httptest"
	"net/url"
	"strings"
	"time"

	"github.com/beevik/etree"
	"github.com/crewjam/saml"
	"github.com/crewjam/saml/logger"
	"github.com/crewjam/saml/samlidp"
	"github.com/crewjam/saml/samlsp"
	"golang.org/x/net/html"
)

func init() { gens["C14"] = (*Ctx).genC14 }

var hostile = []string{"", "plain", "\"><script>alert(1)</script>", "' onmouseover='x", "a\"b", "<b>", "&amp;&lt;", "&#34;", "x\x00y", "\u2028\u2029", "{{.URL}}", "{{`\"`}}",
	"</form><form action=\"https://evil.example.org/\">", "a+b=c&d", "\\\"", "%22%3E", "javascript:alert(1)", "line\nbreak\rret\ttab", "𝄞 ünï", "`backtick`", "--><!--", "]]>", "</script>"}

var hostileURLs = []string{"https://idp.example.com/sso", "https://idp.example.com/sso?a=1&b=2", "javascript:alert(1)", "JaVaScRiPt:alert(1)", " javascript:alert(1)", "data:text/html,<script>alert(1)</script>",
	"vbscript:msgbox(1)", "https://x/\"><script>alert(1)</script>", "/relative/path", "//host/path", "mailto:a@b", "http://h/?q=\"'<>", "https://h/%zz%41", "ja\tvascript:alert(1)", "x:y/z", "a/b:c", "", "#frag", "https://h/ path with spaces", "HTTPS://UPPER/", "feed:javascript:x",
	// template delimiters inside an otherwise ordinary https location: data, never template source
	"https://idp.example.com/sso?rs={{.RelayState}}&m={{.SAMLRequest}}", "https://idp.example.com/sso?tenant=a{{/* x */}}b", "https://idp.example.com/sso?x={{",
	"https://idp.example.com/sso?x={{if .RelayState}}", "https://idp.example.com/sso?tenant={{print `evil.example.net`}}", "https://idp.example.com/sso?x=}}{{"}

type formObs struct {
	forms   int
	action  string
	inputs  [][2]string // name, value
	extra   []string    // unexpected elements
	scripts int
	text    string
}

func observeForm(b []byte) (o formObs, err error) {
	doc, err := html.Parse(bytes.NewReader(b))
	if err != nil {
		return o, err
	}
	var walk func(n *html.Node, inForm bool)
	walk = func(n *html.Node, inForm bool) {
		if n.Type == html.ElementNode {
			switch n.Data {
			case "html", "head", "body", "p":
			case "form":
				o.forms++
				inForm = true
				for _, a := range n.Attr {
					if a.Key == "action" {
						o.action = a.Val
					}
				}
			case "input":
				var name, val string
				for _, a := range n.Attr {
					switch a.Key {
					case "name":
						name = a.Val
					case "value":
						val = a.Val
					case "type", "id", "placeholder":
					default:
						o.extra = append(o.extra, "input@"+a.Key)
					}
				}
				o.inputs = append(o.inputs, [2]string{name, val})
				if !inForm {
					o.extra = append(o.extra, "input-outside-form")
				}
			case "script":
				o.scripts++
			default:
				o.extra = append(o.extra, n.Data)
			}
		}
		if n.Type == html.TextNode && n.Parent != nil && n.Parent.Data == "p" {
			o.text += n.Data
		}
		for ch := n.FirstChild; ch != nil; ch = ch.NextSibling {
			walk(ch, inForm)
		}
	}
	walk(doc, false)
	return o, nil
}

func nulFFFD(s string) string { return strings.ReplaceAll(s, "\x00", "\uFFFD") }

// x/net/html, like browsers, normalises CR and CRLF in the input stream to LF before tokenising
func crToLF(s string) string {
	return strings.ReplaceAll(strings.ReplaceAll(s, "\r\n", "\n"), "\r", "\n")
}

func inputVal(o formObs, name string) (string, int) {
	n, v := 0, ""
	for _, in := range o.inputs {
		if in[0] == name {
			n++
			v = in[1]
		}
	}
	return v, n
}

// checkForm: direct oracle on the parsed DOM
func checkForm(out []byte, wantInputs map[string]string, urlIn string, maxScripts int, toast *string) string {
	o, err := observeForm(out)
	if err != nil {
		return "key=form-structure output does not parse as HTML"
	}
	var why []string
	if o.forms != 1 {
		why = append(why, fmt.Sprintf("%d forms", o.forms))
	}
	if len(o.extra) > 0 {
		why = append(why, "unexpected elements/attributes "+strings.Join(o.extra, ","))
	}
	if o.scripts > maxScripts {
		why = append(why, fmt.Sprintf("%d script elements", o.scripts))
	}
	for name, want := range wantInputs {
		v, n := inputVal(o, name)
		if n != 1 || v != crToLF(nulFFFD(want)) {
			why = append(why, fmt.Sprintf("field %s: %d occurrences, value %q, expected %q", name, n, v, want))
		}
	}
	// action: never a script-bearing scheme
	if u, err := url.Parse(strings.TrimSpace(o.action)); err == nil && u.Scheme != "" {
		switch strings.ToLower(u.Scheme) {
		case "http", "https", "mailto":
		default:
			why = append(why, "form action has scheme "+u.Scheme)
		}
	}
	lower := strings.ToLower(strings.TrimLeft(o.action, " \t\r\n\x00"))
	for _, bad := range []string{"javascript:", "data:", "vbscript:"} {
		if strings.HasPrefix(lower, bad) {
			why = append(why, "form action starts with "+bad)
		}
	}
	if toast != nil && o.text != crToLF(nulFFFD(*toast)) {
		why = append(why, fmt.Sprintf("toast text %q, expected %q", o.text, *toast))
	}
	if len(why) > 0 {
		return "key=form-structure " + strings.Join(why, "; ")
	}
	return ""
}

func fieldToks(fields [][2]string) []string {
	t := []string{fmt.Sprint(len(fields))}
	for _, f := range fields {
		t = append(t, encBytes([]byte(f[0])), encBytes([]byte(f[1])))
	}
	return t
}

func (c *Ctx) formCase(file string, nth int, out []byte, fields [][2]string, urlIn string, maxScripts int, toast *string, prefix, suffix string) {
	want := map[string]string{}
	for _, f := range fields {
		if f[0] != "URL" && f[0] != "Toast" {
			want[f[0]] = f[1]
		}
	}
	orc := checkForm(out, want, urlIn, maxScripts, toast)
	body := out
	if prefix != "" {
		body = bytes.TrimSuffix(bytes.TrimPrefix(out, []byte(prefix)), []byte(suffix))
	}
	c.count("c14-template", file+fmt.Sprint(nth))
	c.emit("render", joinToks([]string{encStr(file), fmt.Sprint(nth)}, fieldToks(fields)), encBytes(body), orc)
}

func (c *Ctx) genC14() {
	saml.RandReader = &detReader{c: c}
	now := baseTime
	saml.TimeNow = func() time.Time { return now }
	n := len(hostile) * 3
	if !c.quick() {
		n = 4000
	}
	pickS := func(i int) string {
		if i < len(hostile) {
			return hostile[i]
		}
		var sb strings.Builder
		for j := c.rng.Intn(12); j > 0; j-- {
			sb.WriteString([]string{"\"", "'", "<", ">", "&", "+", "=", "\x00", "{{", "}}", "a", " ", "\n", "\r", "\u2028", "é", ";", "#", "%", "/", "\\", "`"}[c.rng.Intn(22)])
		}
		return sb.String()
	}
	pickU := func(i int) string {
		if i < len(hostileURLs) {
			return hostileURLs[i]
		}
		if c.chance(0.5) {
			return hostileURLs[c.rng.Intn(len(hostileURLs))] + pickS(len(hostile)+1)
		}
		return pickS(len(hostile) + 1)
	}
	for i := 0; i < n; i++ {
		relay, dest := pickS(i%len(hostile)+(i/len(hostile))*len(hostile)), pickU(i)
		if i >= len(hostile) {
			relay = pickS(c.rng.Intn(len(hostile) * 2))
		}
		// the three SP forms are rendered first and inspected afterwards: a form that was handed out stays what it was, whatever is
		// rendered next (another message, another destination, another relay state)
		var out0, out1, out2 []byte
		dest1, dest2 := pickU(i+5), pickU(i+7)
		relay1 := pickS((i + 2) % len(hostile))
		nid := pickS(i % len(hostile))
		// SP AuthnRequest form (template 0 in service_provider.go)
		{
			r := &saml.AuthnRequest{ID: "id-1", Destination: dest, IssueInstant: now, Version: "2.0", AssertionConsumerServiceURL: pickU(i + 3)}
			if p := safely(func() string { out0 = r.Post(relay); return "ok" }); p != "ok" {
				out0 = []byte("<!-- " + p + " -->") // (a panic while rendering: no form at all — the oracle says so)
			}
		}
		{
			r := &saml.LogoutRequest{ID: "id-2", Destination: dest1, IssueInstant: now, Version: "2.0", NameID: &saml.NameID{Value: nid}}
			out1 = r.Post(relay1)
		}
		{
			r := &saml.LogoutResponse{ID: "id-3", Destination: dest2, IssueInstant: now, Version: "2.0"}
			out2 = r.Post(relay)
		}
		{
			v, _ := inputValOf(out0, "SAMLRequest")
			c.formCase("service_provider.go", 0, out0, [][2]string{{"URL", dest}, {"SAMLRequest", v}, {"RelayState", relay}}, dest, 1, nil, "", "")
		}
		{
			v, _ := inputValOf(out1, "SAMLRequest")
			c.formCase("service_provider.go", 1, out1, [][2]string{{"URL", dest1}, {"SAMLRequest", v}, {"RelayState", relay1}}, dest1, 1, nil, "", "")
		}
		{
			v, _ := inputValOf(out2, "SAMLResponse")
			c.formCase("service_provider.go", 2, out2, [][2]string{{"URL", dest2}, {"SAMLResponse", v}, {"RelayState", relay}}, dest2, 1, nil, "", "")
		}
		// IdP response form
		{
			idp := c.newIDP(registry{})
			req := &saml.IdpAuthnRequest{IDP: idp, RelayState: relay, ResponseEl: etree.NewElement("x"), ACSEndpoint: &saml.IndexedEndpoint{Binding: saml.HTTPPostBinding, Location: dest},
				ServiceProviderMetadata: &saml.EntityDescriptor{EntityID: "sp"}}
			w := httptest.NewRecorder()
			if err := req.WriteResponse(w); err == nil {
				out := w.Body.Bytes()
				v, _ := inputValOf(out, "SAMLResponse")
				c.formCase("identity_provider.go", 0, out, [][2]string{{"URL", dest}, {"SAMLResponse", v}, {"RelayState", relay}}, dest, 2, nil, "", "")
			}
		}
		// samlidp login form: relay state and request buffer are peer controlled, the login URL is configuration
		if i < len(hostile)*3 || c.chance(0.2) {
			c.loginForm(relay, pickU(i+1))
		}
		// middleware POST page
		if i < len(hostile)*2 || c.chance(0.2) {
			c.middlewarePost(dest)
		}
	}
	// "each form has exactly the intended action and hidden fields" also after the next form has been rendered: the three SP
	// renderers in turn, every returned form compared with its snapshot after each later call
	{
		why := ""
		var held, snaps [][]byte
		for i := 0; i < 9 && why == ""; i++ {
			dest := fmt.Sprintf("https://idp.example.com/sso/%d", i)
			relay := fmt.Sprintf("relay-%d", i)
			var out []byte
			switch i % 3 {
			case 0:
				out = (&saml.AuthnRequest{ID: fmt.Sprintf("id-%d", i), Destination: dest, IssueInstant: now, Version: "2.0"}).Post(relay)
			case 1:
				out = (&saml.LogoutRequest{ID: fmt.Sprintf("id-%d", i), Destination: dest, IssueInstant: now, Version: "2.0", NameID: &saml.NameID{Value: "n"}}).Post(relay)
			default:
				out = (&saml.LogoutResponse{ID: fmt.Sprintf("id-%d", i), Destination: dest, IssueInstant: now, Version: "2.0"}).Post(relay)
			}
			held, snaps = append(held, out), append(snaps, append([]byte{}, out...))
			for j := range held {
				if !bytes.Equal(held[j], snaps[j]) {
					why = fmt.Sprintf("key=form-changed-after-emission the form emitted by call %d (action %s) changed when call %d rendered its form", j, fmt.Sprintf("https://idp.example.com/sso/%d", j), i)
					break
				}
			}
		}
		c.emitOneWay("formstable", nil, "done", why)
	}
	// metadata locations
	c.endpointCases()
}

func inputValOf(out []byte, name string) (string, int) {
	o, err := observeForm(out)
	if err != nil {
		return "", 0
	}
	return inputVal(o, name)
}

func (c *Ctx) loginForm(relay, loginURL string) {
	u, err := url.Parse(loginURL)
	if err != nil {
		return
	}
	srv, err := samlidp.New(samlidp.Options{URL: mustURL("https://idp.example.com"), Key: c.key("idp").Key, Certificate: c.key("idp").Cert, Store: &samlidp.MemoryStore{}, Logger: logger.DefaultLogger})
	if err != nil {
		return
	}
	srv.IDP.LoginURL = *u
	req := &saml.IdpAuthnRequest{IDP: &srv.IDP, RelayState: relay, RequestBuffer: []byte("<req>" + relay + "</req>")}
	w := httptest.NewRecorder()
	r, _ := http.NewRequest("GET", "https://idp.example.com/sso", nil)
	if srv.GetSession(w, r, req) != nil {
		return
	}
	out := w.Body.Bytes()
	v, _ := inputValOf(out, "SAMLRequest")
	toast := ""
	c.formCase("samlidp/session.go", 0, out, [][2]string{{"Toast", toast}, {"URL", u.String()}, {"SAMLRequest", v}, {"RelayState", relay}}, u.String(), 0, &toast, "", "")
}

func (c *Ctx) middlewarePost(ssoURL string) {
	if _, err := url.Parse(ssoURL); err != nil {
		return
	}
	s := c.spFor(ssoURL, ssoURL, "sp", "", true)
	s.IDPMetadata.IDPSSODescriptors[0].SingleSignOnServices = []saml.Endpoint{{Binding: saml.HTTPPostBinding, Location: ssoURL}}
	m, err := samlsp.New(samlsp.Options{URL: mustURL("https://sp.example.com"), Key: c.key("sp").RSA(), Certificate: c.key("sp").Cert, IDPMetadata: s.IDPMetadata})
	if err != nil {
		return
	}
	m.Binding = saml.HTTPPostBinding
	w := httptest.NewRecorder()
	r, _ := http.NewRequest("GET", "https://sp.example.com/protected?x=\"><script>", nil)
	func() {
		defer func() { recover() }()
		m.HandleStartAuthFlow(w, r)
	}()
	if w.Code != 200 {
		return
	}
	out := w.Body.Bytes()
	v, _ := inputValOf(out, "SAMLRequest")
	relay, _ := inputValOf(out, "RelayState")
	orcExtra := ""
	if csp := w.Header().Get("Content-Security-Policy"); !strings.Contains(csp, "script-src") {
		orcExtra = "key=csp-header the middleware POST page carries no script-src policy"
	}
	pre, suf := `<!DOCTYPE html><html><body>`, `</body></html>`
	if !bytes.HasPrefix(out, []byte(pre)) || !bytes.HasSuffix(out, []byte(suf)) {
		orcExtra = "key=form-structure middleware POST page wrapper changed"
	}
	fields := [][2]string{{"URL", ssoURL}, {"SAMLRequest", v}, {"RelayState", relay}}
	orc := checkForm(out, map[string]string{"SAMLRequest": v, "RelayState": relay}, ssoURL, 1, nil)
	if orc == "" {
		orc = orcExtra
	}
	body := bytes.TrimSuffix(bytes.TrimPrefix(out, []byte(pre)), []byte(suf))
	c.count("c14-template", "middleware-post-page")
	c.emit("render", joinToks([]string{encStr("service_provider.go"), "0"}, fieldToks(fields)), encBytes(body), orc)
}

var allBindings = []string{saml.HTTPPostBinding, saml.HTTPRedirectBinding, saml.HTTPArtifactBinding, saml.SOAPBinding, saml.SOAPBindingV1, "urn:mace:shibboleth:1.0:profiles:AuthnRequest", "", "urn:oasis:names:tc:SAML:2.0:bindings:http-post"}

var locations = []string{"https://sp.example.com/acs", "http://sp.example.com/acs", "HTTPS://SP.EXAMPLE.COM/acs", "hTtP://x/", "javascript:alert(1)", "JAVASCRIPT:alert(1)", "data:text/html;base64,PHNjcmlwdD4=", "vbscript:x",
	" https://leading.blank/", "\thttps://leading.tab/", "ja\tvascript:alert(1)", "java\nscript:alert(1)", "https://trailing.blank/ ", "/relative", "//scheme-relative/x", "", "https", "https:", "https:/one-slash", "ftp://x/",
	"file:///etc/passwd", ":missing", "1http://x", "ht+tp://x", "https://x/#javascript:alert(1)", "javascript://%0aalert(1)", "https://user:pw@host/", "https://[::1]/", "https://x/%zz", "http://a b/", "https://x/\x7f", "urn:x", "mailto:a@b",
	// non-http(s) schemes written with an authority (hierarchical, so url.Parse gives them a host): still not http(s)
	"javascript://idp.example.com/%0Aalert(document.domain)", "JavaScript://host/x", "vbscript://host/x", "data://host/x", "com.example.app://saml/acs", "ftp://host/acs", "ws://host/acs", "httpx://host/acs", "https+x://host/acs"}

// one EntityDescriptor with the location in every endpoint-bearing element of both descriptor kinds
func mdWith(binding, loc string, respLoc *string) []byte {
	a := func(s string) string { return xmlAttrEsc(s) }
	rl := ""
	if respLoc != nil {
		rl = ` ResponseLocation="` + a(*respLoc) + `"`
	}
	ep := func(tag string, indexed bool) string {
		idx := ""
		if indexed {
			idx = ` index="1"`
		}
		return `<md:` + tag + ` Binding="` + a(binding) + `" Location="` + a(loc) + `"` + rl + idx + `/>`
	}
	return []byte(`<md:EntityDescriptor xmlns:md="urn:oasis:names:tc:SAML:2.0:metadata" entityID="https://e.example.com/">` +
		`<md:IDPSSODescriptor protocolSupportEnumeration="urn:oasis:names:tc:SAML:2.0:protocol">` + ep("ArtifactResolutionService", true) + ep("SingleLogoutService", false) + ep("ManageNameIDService", false) +
		ep("SingleSignOnService", false) + ep("NameIDMappingService", false) + ep("AssertionIDRequestService", false) + `</md:IDPSSODescriptor>` +
		`<md:SPSSODescriptor protocolSupportEnumeration="urn:oasis:names:tc:SAML:2.0:protocol">` + ep("ArtifactResolutionService", true) + ep("SingleLogoutService", false) + ep("ManageNameIDService", false) +
		ep("AssertionConsumerService", true) + `</md:SPSSODescriptor></md:EntityDescriptor>`)
}

// endpointOracle: the property's own words for one parsed endpoint element — with a standard binding, an accepted element
// carries the Location it was given and that is an http(s) URL (likewise a non-empty ResponseLocation); with any other
// binding both come out blank
func endpointOracle(bnd, loc string, rl *string, accepted bool, gotLoc string, gotRL *string) string {
	if !accepted {
		return ""
	}
	known := bnd == saml.HTTPPostBinding || bnd == saml.HTTPRedirectBinding || bnd == saml.HTTPArtifactBinding || bnd == saml.SOAPBinding || bnd == saml.SOAPBindingV1
	httpish := func(s string) bool {
		lw := strings.ToLower(s)
		return strings.HasPrefix(lw, "http:") || strings.HasPrefix(lw, "https:")
	}
	if !known {
		if gotLoc != "" || (gotRL != nil && *gotRL != "") {
			return fmt.Sprintf("key=endpoint-unknown-binding Location %q / ResponseLocation kept for unknown binding %q", gotLoc, bnd)
		}
		return ""
	}
	if gotLoc != loc || !httpish(gotLoc) {
		return fmt.Sprintf("key=endpoint-scheme element with binding %s and Location %q accepted, Location read as %q", bnd, loc, gotLoc)
	}
	if rl != nil && *rl != "" {
		if gotRL == nil || *gotRL != *rl || !httpish(*gotRL) {
			return fmt.Sprintf("key=endpoint-scheme element with binding %s and ResponseLocation %q accepted", bnd, *rl)
		}
	}
	return ""
}

func (c *Ctx) endpointCases() {
	locs := append([]string{}, locations...)
	extra := 100
	if !c.quick() {
		extra = 3000
	}
	for i := 0; i < extra; i++ {
		l := locations[c.rng.Intn(len(locations))]
		b := []byte(l)
		if len(b) > 0 {
			switch c.rng.Intn(4) {
			case 0:
				b[c.rng.Intn(len(b))] = " \t\n:/#?%aZ+.-"[c.rng.Intn(13)]
			case 1:
				p := c.rng.Intn(len(b))
				b = append(b[:p], append([]byte{" \t:/#jJ"[c.rng.Intn(7)]}, b[p:]...)...)
			case 2:
				b = b[:c.rng.Intn(len(b))]
			default:
				b = []byte(strings.ToUpper(l))
			}
		}
		locs = append(locs, string(b))
	}
	for _, bnd := range allBindings {
		for _, loc := range locs {
			// direct: the struct unmarshaller
			var ep saml.Endpoint
			x := `<E Binding="` + xmlAttrEsc(bnd) + `" Location="` + xmlAttrEsc(loc) + `"/>`
			err := xml.Unmarshal([]byte(x), &ep)
			impl := "err"
			if err == nil {
				impl = "ok " + encBytes([]byte(ep.Location))
			}
			orc := ""
			known := bnd == saml.HTTPPostBinding || bnd == saml.HTTPRedirectBinding || bnd == saml.HTTPArtifactBinding || bnd == saml.SOAPBinding || bnd == saml.SOAPBindingV1
			if err == nil {
				if known {
					lw := strings.ToLower(ep.Location)
					if ep.Location != loc || !(strings.HasPrefix(lw, "http:") || strings.HasPrefix(lw, "https:")) {
						orc = fmt.Sprintf("key=endpoint-scheme accepted Location %q for binding %s", ep.Location, bnd)
					}
				} else if ep.Location != "" {
					orc = fmt.Sprintf("key=endpoint-unknown-binding Location %q kept for unknown binding %q", ep.Location, bnd)
				}
			}
			// refinement relation: the model may accept what url.Parse rejects for other reasons
			if impl == "err" && known {
				c.count("endpoint-impl-err", "known")
				// emitted for information only when the model also rejects; otherwise skip the comparison
				c.emitOneWay("endpoint", []string{encStr(bnd), encBytes([]byte(loc))}, impl, orc)
			} else {
				c.emit("endpoint", []string{encStr(bnd), encBytes([]byte(loc))}, impl, orc)
			}
		}
	}
	// Location x ResponseLocation for both endpoint types (ResponseLocation present/empty/absent)
	respLocs := []string{"", "https://sp.example.com/slo-return", "javascript:alert(1)", "JavaScript:x", "data:x", "/relative", "http://ok/", " https://x/"}
	for _, bnd := range allBindings {
		for _, loc := range []string{"https://sp.example.com/slo", "javascript:alert(1)", "", "/rel"} {
			for ri, rl := range respLocs {
				var ep saml.Endpoint
				x := `<E Binding="` + xmlAttrEsc(bnd) + `" Location="` + xmlAttrEsc(loc) + `" ResponseLocation="` + xmlAttrEsc(rl) + `"/>`
				impl := "err"
				if err := xml.Unmarshal([]byte(x), &ep); err == nil {
					impl = "ok " + encBytes([]byte(ep.Location)) + " " + encBytes([]byte(ep.ResponseLocation))
				}
				c.emitOneWay("endpoint2", []string{encStr(bnd), encBytes([]byte(loc)), encBytes([]byte(rl))}, impl, endpointOracle(bnd, loc, &rl, impl != "err", ep.Location, &ep.ResponseLocation))
				var iep saml.IndexedEndpoint
				rattr := ` ResponseLocation="` + xmlAttrEsc(rl) + `"`
				rtok := []string{"+", encBytes([]byte(rl))}
				if ri == 0 && c.chance(0.5) {
					rattr, rtok = "", []string{"-"}
				}
				x = `<E Binding="` + xmlAttrEsc(bnd) + `" Location="` + xmlAttrEsc(loc) + `"` + rattr + ` index="1"/>`
				impl = "err"
				if err := xml.Unmarshal([]byte(x), &iep); err == nil {
					impl = "ok " + encBytes([]byte(iep.Location))
					if iep.ResponseLocation == nil {
						impl += " -"
					} else {
						impl += " + " + encBytes([]byte(*iep.ResponseLocation))
					}
				}
				var rin *string
				if rattr != "" {
					r := rl
					rin = &r
				}
				c.emitOneWay("endpoint3", joinToks([]string{encStr(bnd), encBytes([]byte(loc))}, rtok), impl, endpointOracle(bnd, loc, rin, impl != "err", iep.Location, iep.ResponseLocation))
			}
		}
	}
	// every endpoint-bearing element, Location and ResponseLocation, through samlsp.ParseMetadata
	for _, bnd := range allBindings[:6] {
		for _, loc := range locations {
			for _, mode := range []string{"location", "response-location"} {
				var doc []byte
				if mode == "location" {
					doc = mdWith(bnd, loc, nil)
				} else {
					doc = mdWith(bnd, "https://fine.example.com/", &loc)
				}
				md, err := samlsp.ParseMetadata(doc)
				orc := ""
				if err == nil {
					var all []string
					for _, d := range md.IDPSSODescriptors {
						for _, e := range d.SSODescriptor.ArtifactResolutionServices {
							all = append(all, e.Location)
							if e.ResponseLocation != nil {
								all = append(all, *e.ResponseLocation)
							}
						}
						for _, l := range [][]saml.Endpoint{d.ArtifactResolutionServices, d.SingleLogoutServices, d.ManageNameIDServices, d.SingleSignOnServices, d.NameIDMappingServices, d.AssertionIDRequestServices} {
							for _, e := range l {
								all = append(all, e.Location, e.ResponseLocation)
							}
						}
					}
					for _, d := range md.SPSSODescriptors {
						for _, l := range [][]saml.IndexedEndpoint{d.ArtifactResolutionServices, d.AssertionConsumerServices} {
							for _, e := range l {
								all = append(all, e.Location)
								if e.ResponseLocation != nil {
									all = append(all, *e.ResponseLocation)
								}
							}
						}
						for _, l := range [][]saml.Endpoint{d.SingleLogoutServices, d.ManageNameIDServices} {
							for _, e := range l {
								all = append(all, e.Location, e.ResponseLocation)
							}
						}
					}
					for _, l := range all {
						lw := strings.ToLower(l)
						if l != "" && !(strings.HasPrefix(lw, "http:") || strings.HasPrefix(lw, "https:")) {
							orc = fmt.Sprintf("key=endpoint-scheme:%s ParseMetadata returned %s %q (binding %s)", mode, mode, l, bnd)
						}
					}
				}
				impl := "err"
				if err == nil {
					impl = "ok"
				}
				c.count("c14-metadata", mode)
				c.emitOneWay("mdparse", nil, impl, orc)
			}
		}
	}
}
