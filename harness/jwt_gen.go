package main

// C16: session tokens — structure-aware mutation of valid session and tracking tokens, observed through the real
// middleware (does the wrapped application handler run, and what does it see).

import (
	"crypto/x509"
	"encoding/base64"
	"encoding/json"
	"encoding/pem"
	"fmt"
	"net/http"
	"net/http/httptest"
	"sort"
	"strings"
	"time"

	"github.com/crewjam/saml"
	"github.com/crewjam/saml/samlsp"
	"github.com/golang-jwt/jwt/v4"
)

func init() { gens["C16"] = (*Ctx).genC16 }

type jwtClaims struct {
	Aud, Iss, Sub          string
	Exp, Iat, Nbf          int64
	SamlSession, SamlAuthn bool
	Attrs                  map[string][]string
	AttrOrder              []string
	TrackedID, TrackedURI  string
}

func (cl jwtClaims) toks() []string {
	t := []string{encStr(cl.Aud), encStr(cl.Iss), encStr(cl.Sub), encInt(cl.Exp), encInt(cl.Iat), encInt(cl.Nbf), encBool(cl.SamlSession), encBool(cl.SamlAuthn)}
	keys := cl.AttrOrder
	if keys == nil {
		for k := range cl.Attrs {
			keys = append(keys, k)
		}
		sort.Strings(keys)
	}
	t = append(t, fmt.Sprint(len(keys)))
	for _, k := range keys {
		t = append(t, encStr(k))
		t = append(t, encStrList(cl.Attrs[k])...)
	}
	return append(t, encStr(cl.TrackedID), encStr(cl.TrackedURI))
}

func (cl jwtClaims) mapClaims() jwt.MapClaims {
	m := jwt.MapClaims{}
	if cl.Aud != "" {
		m["aud"] = cl.Aud
	}
	if cl.Iss != "" {
		m["iss"] = cl.Iss
	}
	if cl.Sub != "" {
		m["sub"] = cl.Sub
	}
	if cl.Exp != 0 {
		m["exp"] = cl.Exp
	}
	if cl.Iat != 0 {
		m["iat"] = cl.Iat
	}
	if cl.Nbf != 0 {
		m["nbf"] = cl.Nbf
	}
	if cl.SamlSession {
		m["saml-session"] = true
	}
	if cl.SamlAuthn {
		m["saml-authn-request"] = true
	}
	if cl.Attrs != nil {
		m["attr"] = cl.Attrs
	}
	if cl.TrackedID != "" {
		m["id"] = cl.TrackedID
	}
	if cl.TrackedURI != "" {
		m["uri"] = cl.TrackedURI
	}
	return m
}

func canonAttrs(m map[string][]string) string {
	keys := []string{}
	for k := range m {
		keys = append(keys, k)
	}
	sort.Strings(keys)
	var parts []string
	for _, k := range keys {
		var vs []string
		for _, v := range m[k] {
			vs = append(vs, pct(v))
		}
		parts = append(parts, pct(k)+"="+strings.Join(vs, ","))
	}
	return strings.Join(parts, ";")
}

type jwtSetup struct {
	keyName string
	alg     string
	rootURL string
	maxAge  time.Duration
	cookie  string
	mw      *samlsp.Middleware
	// one handler chain per gate, kept for the life of the setup: a deployment wraps its handler once and serves every
	// request with that instance, so whatever one request leaves behind the next one meets
	chains map[string]http.Handler
	ran    *string
}

func (c *Ctx) newJWTSetup(keyName, rootURL, cookieName string, maxAge time.Duration) *jwtSetup {
	k := c.key(keyName)
	opts := samlsp.Options{URL: mustURL(rootURL), Key: k.Key, Certificate: k.Cert, CookieName: cookieName,
		IDPMetadata: &saml.EntityDescriptor{EntityID: idpEntity, IDPSSODescriptors: []saml.IDPSSODescriptor{{SingleSignOnServices: []saml.Endpoint{{Binding: saml.HTTPRedirectBinding, Location: idpSSOURL}}}}}}
	m, err := samlsp.New(opts)
	must(err)
	sp := m.Session.(samlsp.CookieSessionProvider)
	codec := sp.Codec.(samlsp.JWTSessionCodec)
	codec.MaxAge = maxAge
	sp.Codec = codec
	sp.MaxAge = maxAge
	m.Session = sp
	alg := "RS256"
	if strings.HasPrefix(keyName, "ec") {
		alg = "ES256"
	}
	name := cookieName
	if name == "" {
		name = "token"
	}
	return &jwtSetup{keyName: keyName, alg: alg, rootURL: rootURL, maxAge: maxAge, cookie: name, mw: m}
}

func keyID(name string) int {
	return map[string]int{"sp": 1, "sp2": 2, "ec256": 3, "attacker": 4, "ec384": 5}[name]
}

func (s *jwtSetup) codecToks() []string {
	return []string{s.alg, fmt.Sprint(keyID(s.keyName)), encStr(s.rootURL), encStr(s.rootURL), encInt(int64(s.maxAge / time.Second))}
}

// observe runs the real middleware: RequireAccount(optionally RequireAttribute)(handler)
func (s *jwtSetup) observe(cookieValue *string, gate *[2]string, now time.Time) string {
	jwt.TimeFunc = func() time.Time { return now }
	saml.TimeNow = func() time.Time { return now }
	if s.chains == nil {
		s.chains = map[string]http.Handler{}
		s.ran = new(string)
	}
	gk := "-"
	if gate != nil {
		gk = "+" + gate[0] + "\x00" + gate[1]
	}
	h, ok := s.chains[gk]
	if !ok {
		ran := s.ran
		inner := http.Handler(http.HandlerFunc(func(w http.ResponseWriter, r *http.Request) {
			sess := samlsp.SessionFromContext(r.Context())
			cl, ok := sess.(samlsp.JWTSessionClaims)
			if !ok {
				*ran = "admit-without-session"
				return
			}
			*ran = "admit " + encStr(cl.Subject) + " " + encStr(canonAttrs(cl.Attributes))
		}))
		if gate != nil {
			inner = samlsp.RequireAttribute(gate[0], gate[1])(inner)
		}
		h = s.mw.RequireAccount(inner)
		s.chains[gk] = h
	}
	*s.ran = "deny"
	ran := s.ran
	r, _ := http.NewRequest("GET", s.rootURL+"/protected", nil)
	if cookieValue != nil {
		r.AddCookie(&http.Cookie{Name: s.cookie, Value: *cookieValue})
	}
	return safely(func() string {
		w := httptest.NewRecorder()
		h.ServeHTTP(w, r)
		return *ran
	})
}

func gateToks(g *[2]string) []string {
	if g == nil {
		return []string{"-"}
	}
	return []string{"+", encStr(g[0]), encStr(g[1])}
}

type jwtToken struct {
	wellFormed bool
	alg        string
	claims     jwtClaims
	macKey     string // "" = invalid
	macAlg     string
	raw        string
}

func (t jwtToken) toks() []string {
	if !t.wellFormed {
		return []string{"+", "0"}
	}
	out := joinToks([]string{"+", "1", t.alg}, t.claims.toks())
	if t.macKey == "" {
		return append(out, "i")
	}
	return append(out, "k", fmt.Sprint(keyID(t.macKey)), t.macAlg)
}

// sign builds a real token with the given header algorithm, claims and key
func (c *Ctx) sign(alg string, cl jwtClaims, keyName string) jwtToken {
	t := jwtToken{wellFormed: true, alg: alg, claims: cl}
	var method jwt.SigningMethod
	var key interface{}
	switch alg {
	case "RS256":
		method, key = jwt.SigningMethodRS256, c.key(keyName).Key
	case "ES256":
		method, key = jwt.SigningMethodES256, c.key(keyName).Key
	case "HS256":
		// the classic confusion attack: HMAC keyed with the PEM of the public key
		der, _ := x509.MarshalPKIXPublicKey(c.key(keyName).Cert.PublicKey)
		method, key = jwt.SigningMethodHS256, pem.EncodeToMemory(&pem.Block{Type: "PUBLIC KEY", Bytes: der})
	case "none":
		method, key = jwt.SigningMethodNone, jwt.UnsafeAllowNoneSignatureType
	case "RS512":
		method, key = jwt.SigningMethodRS512, c.key(keyName).Key
	}
	raw, err := jwt.NewWithClaims(method, cl.mapClaims()).SignedString(key)
	must(err)
	t.raw = raw
	if alg == "RS256" || alg == "ES256" {
		t.macKey, t.macAlg = keyName, alg
	}
	if alg == "RS512" {
		t.alg = "RS512"
	}
	return t
}

func (c *Ctx) sessionCase(s *jwtSetup, t *jwtToken, gate *[2]string, now time.Time, tag string) {
	var cookie *string
	toks := joinToks(s.codecToks(), []string{encInt(now.Unix())})
	if t != nil {
		cookie = &t.raw
		toks = append(toks, t.toks()...)
	} else {
		toks = append(toks, "-")
	}
	toks = append(toks, gateToks(gate)...)
	impl := s.observe(cookie, gate, now)
	// direct oracle: the property read on the case description
	orc := ""
	admit := strings.HasPrefix(impl, "admit")
	legit := t != nil && t.wellFormed && t.alg == s.alg && t.macKey == s.keyName && t.macAlg == s.alg && t.claims.Aud == s.rootURL && t.claims.Iss == s.rootURL &&
		t.claims.SamlSession && (t.claims.Exp == 0 || now.Unix() < t.claims.Exp) && (t.claims.Nbf == 0 || t.claims.Nbf <= now.Unix()) && (t.claims.Iat == 0 || t.claims.Iat <= now.Unix())
	if gate != nil && legit {
		ok := false
		for _, v := range t.claims.Attrs[gate[0]] {
			ok = ok || v == gate[1]
		}
		legit = ok
	}
	if admit && !legit {
		orc = "key=session-admitted:" + tag + " the application handler ran for a request that presents no authentic, unexpired session token of this SP (" + impl + ")"
	} else if !admit && legit {
		orc = "key=session-refused:" + tag + " a session token this SP minted and that is still valid was refused"
	} else if impl == "admit-without-session" || strings.HasPrefix(impl, "panic") {
		orc = "key=session-handler:" + tag + " " + impl
	}
	c.count("c16-kind", tag)
	c.emit("session", toks, impl, orc)
}

func b64seg(v interface{}) string {
	b, _ := json.Marshal(v)
	return base64.RawURLEncoding.EncodeToString(b)
}

func (c *Ctx) genC16() {
	t0 := baseTime
	setups := []*jwtSetup{c.newJWTSetup("sp", "https://sp.example.com", "", time.Hour), c.newJWTSetup("ec256", "https://ec.example.com", "session-cookie", 10*time.Minute)}
	other := c.newJWTSetup("sp", "https://other.example.com", "", time.Hour) // same key, other deployment URL
	for _, s := range setups {
		attrs := map[string][]string{"uid": {"alice"}, "groups": {"admin", "staff"}, "SessionIndex": {"idx1"}}
		base := jwtClaims{Aud: s.rootURL, Iss: s.rootURL, Sub: "alice", Exp: t0.Add(s.maxAge).Unix(), Iat: t0.Unix(), Nbf: t0.Unix(), SamlSession: true, Attrs: attrs}
		maxS := int64(s.maxAge / time.Second)
		// clock lattice around iat/nbf/exp
		for _, off := range []int64{-3600, -1, 0, 1, maxS / 2, maxS - 1, maxS, maxS + 1, maxS + 3600} {
			now := t0.Add(time.Duration(off) * time.Second)
			t := c.sign(s.alg, base, s.keyName)
			c.sessionCase(s, &t, nil, now, "clock")
			c.sessionCase(s, &t, &[2]string{"groups", "staff"}, now, "clock+gate")
		}
		now := t0.Add(time.Minute)
		// a session that was handed to the application keeps the attributes of the assertion that created it, whatever the
		// codec decodes afterwards (another user's session; a forged token that is rejected): decode A, decode others, read A
		{
			saml.TimeNow = func() time.Time { return now }
			jwt.TimeFunc = func() time.Time { return now }
			codec := s.mw.Session.(samlsp.CookieSessionProvider).Codec
			a := base
			a.Attrs = map[string][]string{"uid": {"alice"}, "groups": {"staff"}}
			b := base
			b.Sub, b.Attrs = "bob", map[string][]string{"uid": {"bob"}, "groups": {"admin"}, "extra": {"x"}}
			ta, tb := c.sign(s.alg, a, s.keyName), c.sign(s.alg, b, s.keyName)
			forgedRaw := tb.raw[:len(tb.raw)-3] + "AAA" // bob's claims under a signature that does not verify
			orc, res := "", "ok"
			for round := 0; round < 8 && orc == ""; round++ {
				sa, err := codec.Decode(ta.raw)
				if err != nil {
					res = "err"
					break
				}
				for _, other := range []string{tb.raw, forgedRaw, "not.a.token"} {
					_, _ = codec.Decode(other)
					got := sa.(samlsp.SessionWithAttributes).GetAttributes()
					if fmt.Sprint(got["groups"]) != "[staff]" || fmt.Sprint(got["uid"]) != "[alice]" || len(got["extra"]) != 0 {
						orc = fmt.Sprintf("key=session-attributes-changed-after-decode a decoded session's attributes changed after the codec decoded another token: groups=%v uid=%v extra=%v", got["groups"], got["uid"], got["extra"])
					}
				}
			}
			c.count("c16-decoded-session-stability", s.keyName)
			c.emitOneWay("sessionstability", []string{encStr(s.keyName)}, res, orc)
		}
		// gates
		for _, g := range [][2]string{{"groups", "admin"}, {"groups", "nobody"}, {"missing", "x"}, {"uid", "alice"}, {"uid", "Alice"}, {"groups", "adm"}, {"SessionIndex", "idx1"}, {"", ""}} {
			t := c.sign(s.alg, base, s.keyName)
			g := g
			c.sessionCase(s, &t, &g, now, "gate")
		}
		// one gate instance over a sequence of requests: a session that carries the value, then sessions that lack the value
		// or the attribute, then the first again — every request is judged on its own session
		{
			g := [2]string{"groups", "admin"}
			seq := []jwtClaims{base, base, base, base, base}
			seq[1].Sub, seq[1].Attrs = "bob", map[string][]string{"uid": {"bob"}, "groups": {"staff"}}
			seq[2].Sub, seq[2].Attrs = "carol", map[string][]string{"uid": {"carol"}}
			seq[3].Sub, seq[3].Attrs = "dave", map[string][]string{"uid": {"dave"}, "groups": {"administrators", "admin2"}}
			for i, cl := range seq {
				t := c.sign(s.alg, cl, s.keyName)
				c.sessionCase(s, &t, &g, now, fmt.Sprintf("gate-sequence-%d", i))
			}
			c.sessionCase(s, nil, &g, now, "gate-sequence-no-cookie")
		}
		// no cookie / garbage / truncations / alterations
		c.sessionCase(s, nil, nil, now, "no-cookie")
		good := c.sign(s.alg, base, s.keyName)
		for _, raw := range []string{"", "garbage", "a.b", "a.b.c", "....", good.raw[:len(good.raw)/2], "Bearer " + good.raw, good.raw + ".extra", strings.Replace(good.raw, ".", "", 1)} {
			t := jwtToken{wellFormed: false, raw: raw}
			c.sessionCase(s, &t, nil, now, "malformed")
		}
		for i := 0; i < 12; i++ {
			// altered without re-signing: still three segments, signature no longer matches
			parts := strings.Split(good.raw, ".")
			cl := base
			cl.Attrs = map[string][]string{"uid": {"mallory"}, "groups": {"admin"}}
			cl.Sub = "mallory"
			parts[1] = b64seg(cl.mapClaims())
			if i%3 == 1 {
				parts[2] = parts[2][:len(parts[2])-4] + "AAAA"
				cl = base
				parts[1] = strings.Split(good.raw, ".")[1]
			}
			if i%3 == 2 {
				parts[2] = ""
			}
			t := jwtToken{wellFormed: true, alg: s.alg, claims: cl, raw: strings.Join(parts, ".")}
			c.sessionCase(s, &t, nil, now, "altered")
		}
		// algorithm substitution
		for _, alg := range []string{"none", "HS256", "RS512"} {
			if alg == "RS512" && s.alg != "RS256" {
				continue
			}
			t := c.sign(alg, base, s.keyName)
			c.sessionCase(s, &t, nil, now, "alg:"+alg)
		}
		{
			otherAlgKey := map[string]string{"RS256": "ec256", "ES256": "sp"}[s.alg]
			otherAlg := map[string]string{"RS256": "ES256", "ES256": "RS256"}[s.alg]
			t := c.sign(otherAlg, base, otherAlgKey)
			c.sessionCase(s, &t, nil, now, "alg:other-family")
		}
		// header says the right algorithm but another key signed
		for _, k := range map[string][]string{"RS256": {"attacker", "sp2"}, "ES256": {"ec384"}}[s.alg] {
			if s.alg == "ES256" {
				continue // ES256 needs P-256; a P-384 key cannot produce it
			}
			t := c.sign(s.alg, base, k)
			c.sessionCase(s, &t, nil, now, "other-key")
		}
		// right key, wrong claims (cross-deployment replay, missing/extra markers, claim edits)
		edits := []func(*jwtClaims){
			func(cl *jwtClaims) { cl.Aud = "https://other.example.com" },
			func(cl *jwtClaims) { cl.Iss = "https://other.example.com" },
			func(cl *jwtClaims) { cl.Aud = "" },
			func(cl *jwtClaims) { cl.Iss = "" },
			func(cl *jwtClaims) { cl.Aud = cl.Aud + "/" },
			func(cl *jwtClaims) { cl.SamlSession = false },
			func(cl *jwtClaims) { cl.SamlSession = false; cl.SamlAuthn = true },
			func(cl *jwtClaims) { cl.SamlAuthn = true },
			func(cl *jwtClaims) { cl.Exp = 0 },
			func(cl *jwtClaims) { cl.Nbf = now.Unix() + 1 },
			func(cl *jwtClaims) { cl.Iat = now.Unix() + 1 },
			func(cl *jwtClaims) { cl.Nbf, cl.Iat = 0, 0 },
			func(cl *jwtClaims) { cl.Exp = now.Unix() },
			func(cl *jwtClaims) { cl.Exp = now.Unix() + 1 },
			func(cl *jwtClaims) { cl.Attrs = nil },
			func(cl *jwtClaims) { cl.Sub = "" },
		}
		for i, e := range edits {
			cl := base
			e(&cl)
			t := c.sign(s.alg, cl, s.keyName)
			c.sessionCase(s, &t, nil, now, fmt.Sprintf("claims-edit-%d", i))
		}
		// tracking tokens minted by the same SP (same key, issuer, audience)
		{
			tc := s.mw.RequestTracker.(samlsp.CookieRequestTracker).Codec.(samlsp.JWTTrackedRequestCodec)
			saml.TimeNow = func() time.Time { return t0 }
			raw, err := tc.Encode(samlsp.TrackedRequest{Index: "idx", SAMLRequestID: "id-1", URI: "/x"})
			must(err)
			cl := jwtClaims{Aud: s.rootURL, Iss: s.rootURL, Sub: "idx", Exp: t0.Add(tc.MaxAge).Unix(), Iat: t0.Unix(), Nbf: t0.Unix(), SamlAuthn: true, TrackedID: "id-1", TrackedURI: "/x"}
			t := jwtToken{wellFormed: true, alg: s.alg, claims: cl, macKey: s.keyName, macAlg: s.alg, raw: raw}
			c.sessionCase(s, &t, nil, t0.Add(10*time.Second), "tracking-token")
		}
		// tokens minted by the codec itself from assertions (friendly names, repeated attributes, several statements, absent subject)
		c.mintCases(s, t0)
	}
	// replay after use: deployments at the same URL with different keys (a rotated key, a second instance in the same
	// process). A token is shown to the deployment that minted it first — which accepts it — and then to the others:
	// what one codec has verified means nothing to a codec holding another key. Then the other way round.
	{
		root := "https://sp.example.com"
		a := c.newJWTSetup("sp", root, "", time.Hour)
		b := c.newJWTSetup("sp2", root, "", time.Hour)
		e := c.newJWTSetup("ec256", root, "", time.Hour)
		for round, order := range [][]*jwtSetup{{b, e, a, b, e, a}, {a, a, b, e}} {
			cl := jwtClaims{Aud: root, Iss: root, Sub: fmt.Sprintf("alice-%d", round), Exp: t0.Add(time.Hour).Unix(), Iat: t0.Unix(), Nbf: t0.Unix(), SamlSession: true, Attrs: map[string][]string{"uid": {"alice"}}}
			t := c.sign("RS256", cl, "sp")
			for _, s := range order {
				c.sessionCase(s, &t, nil, t0.Add(time.Minute), "replay-after-use")
			}
			te := c.sign("ES256", cl, "ec256")
			for _, s := range []*jwtSetup{e, a, b, e} {
				c.sessionCase(s, &te, nil, t0.Add(2*time.Minute), "replay-after-use")
			}
		}
	}
	// cross-deployment: a token minted by another deployment that shares the key
	{
		s := setups[0]
		cl := jwtClaims{Aud: other.rootURL, Iss: other.rootURL, Sub: "alice", Exp: t0.Add(time.Hour).Unix(), Iat: t0.Unix(), Nbf: t0.Unix(), SamlSession: true, Attrs: map[string][]string{"uid": {"alice"}}}
		t := c.sign("RS256", cl, "sp")
		c.sessionCase(s, &t, nil, t0.Add(time.Minute), "cross-deployment")
	}
}

func (c *Ctx) mintCases(s *jwtSetup, t0 time.Time) {
	n := 60
	if !c.quick() {
		n = 1500
	}
	names := []string{"uid", "mail", "groups", "urn:oid:1.2.3", "SessionIndex", ""}
	for i := 0; i < n; i++ {
		a := &saml.Assertion{}
		var nid []string
		if c.chance(0.8) {
			a.Subject = &saml.Subject{}
			if c.chance(0.85) {
				v := c.pick("alice", "bob@example.com", "", "ünï", "Bob.Smith@Example.COM", "ALICE", " alice ")
				// the NameID's format and qualifiers say how the IdP names the subject: the subject exposed is the value as it stands
				a.Subject.NameID = &saml.NameID{Value: v, Format: c.pick("", "", "urn:oasis:names:tc:SAML:1.1:nameid-format:emailAddress", "urn:oasis:names:tc:SAML:2.0:nameid-format:persistent",
					"urn:oasis:names:tc:SAML:2.0:nameid-format:transient", "urn:oasis:names:tc:SAML:1.1:nameid-format:unspecified"), NameQualifier: c.pick("", "", "idp-q"), SPNameQualifier: c.pick("", "", "sp-q")}
				nid = []string{"+", encStr(v)}
			}
		}
		if nid == nil {
			nid = []string{"-"}
		}
		toks := []string{}
		ns := c.rng.Intn(3)
		toks = append(toks, fmt.Sprint(ns))
		for j := 0; j < ns; j++ {
			var st saml.AttributeStatement
			na := c.rng.Intn(4)
			toks = append(toks, fmt.Sprint(na))
			for k := 0; k < na; k++ {
				at := saml.Attribute{Name: names[c.rng.Intn(len(names))]}
				if c.chance(0.4) {
					at.FriendlyName = names[c.rng.Intn(len(names))]
				}
				nv := c.rng.Intn(3)
				var vals []string
				for q := 0; q < nv; q++ {
					v := c.pick("a", "b", "admin", "", "x y")
					at.Values = append(at.Values, saml.AttributeValue{Value: v})
					vals = append(vals, v)
				}
				st.Attributes = append(st.Attributes, at)
				toks = append(toks, encStr(at.FriendlyName), encStr(at.Name))
				toks = append(toks, encStrList(vals)...)
			}
			a.AttributeStatements = append(a.AttributeStatements, st)
		}
		var idx []string
		for j := c.rng.Intn(3); j > 0; j-- {
			v := c.pick("idx-a", "idx-b", "")
			st := saml.AuthnStatement{SessionIndex: v}
			// what the IdP says about *its* session (long after, just before, long before the SP's own lifetime ends) does not
			// lengthen the SP's session: the token is honoured no longer than the session lifetime
			switch c.rng.Intn(4) {
			case 0:
				t := t0.Add(8 * time.Hour)
				st.SessionNotOnOrAfter = &t
				c.count("c16-idp-session-end", "far-after-lifetime")
			case 1:
				t := t0.Add(s.maxAge + 90*time.Second)
				st.SessionNotOnOrAfter = &t
				c.count("c16-idp-session-end", "just-after-lifetime")
			default:
				c.count("c16-idp-session-end", "absent")
			}
			a.AuthnStatements = append(a.AuthnStatements, st)
			idx = append(idx, v)
		}
		toks = append(toks, encStrList(idx)...)
		var gate *[2]string
		if c.chance(0.5) {
			gate = &[2]string{names[c.rng.Intn(len(names))], c.pick("a", "admin", "idx-a", "", "zzz")}
		}
		// mint with the real codec at t0, observe at now
		saml.TimeNow = func() time.Time { return t0 }
		codec := s.mw.Session.(samlsp.CookieSessionProvider).Codec
		sess, err := codec.New(a)
		must(err)
		raw, err := codec.Encode(sess)
		must(err)
		off := []time.Duration{time.Second, s.maxAge - time.Second, s.maxAge, s.maxAge + time.Second, -time.Second}[c.rng.Intn(5)]
		if c.chance(0.6) {
			off = time.Minute
		}
		now := t0.Add(off)
		impl := s.observe(&raw, gate, now)
		all := joinToks(s.codecToks(), []string{encInt(t0.Unix()), encInt(now.Unix())}, nid, toks, gateToks(gate))
		// direct oracle: what the application sees is exactly the assertion's subject and attributes
		orc := ""
		if strings.HasPrefix(impl, "admit ") {
			want := map[string][]string{}
			for _, st := range a.AttributeStatements {
				for _, at := range st.Attributes {
					k := at.FriendlyName
					if k == "" {
						k = at.Name
					}
					for _, v := range at.Values {
						want[k] = append(want[k], v.Value)
					}
				}
			}
			for _, v := range idx {
				want["SessionIndex"] = append(want["SessionIndex"], v)
			}
			sub := ""
			if a.Subject != nil && a.Subject.NameID != nil {
				sub = a.Subject.NameID.Value
			}
			if impl != "admit "+encStr(sub)+" "+encStr(canonAttrs(want)) {
				orc = "key=session-attributes the application sees " + impl + ", the assertion carried subject " + sub + " attributes " + canonAttrs(want)
			}
			if off >= s.maxAge || off < 0 {
				orc = "key=session-admitted:expired-mint a minted token was accepted outside its lifetime"
			}
		} else if gate == nil && off > 0 && off < s.maxAge {
			orc = "key=session-refused:mint a freshly minted token was refused: " + impl
		}
		c.count("c16-kind", "mint")
		c.emit("mint", all, impl, orc)
	}
}
