#!/usr/bin/env python3
"""Regenerates MANIFEST.json from props.py (single source of truth for what is claimed)."""
import json, os, sys
ROOT = os.path.dirname(os.path.abspath(__file__))
sys.path.insert(0, ROOT)
from props import PROPS

ALL = ["C%02d" % i for i in range(1, 21)]
checks = []
for pid in ALL:
    if pid not in PROPS:
        continue
    c = PROPS[pid]
    checks.append({
        "property_id": pid,
        "quick_cmd": f"./check {pid} quick",
        "thorough_cmd": f"./check {pid} thorough",
        "evidence_file": f"evidence/{pid}.json",
        "replay_cmd_template": f"./check {pid} --replay {{path}}",
        "engine": "lean4-proof+correspondence",
        "level_claimed": {
            "category": "proof",
            "text": c.get("level_text", "Lean 4 theorems about an executable model of the anchored code, for all inputs/configurations the property "
                     "quantifies over; the model is tied to /repo's current source on every run by a differential correspondence check "
                     "(real code vs model on generated cases) and by regenerated facts."),
            "design_ref": c.get("design_ref", "DESIGN.md §2 " + pid),
        },
        "level_note": c.get("level_note", "Trusted: Lean kernel (axioms propext, Classical.choice, Quot.sound only), the theorem statements as a reading of the property, "
                     "the correspondence harness; modelled-not-verified parts listed in DESIGN.md §1.6 and in the evidence's trusted_base."),
        "technique": c.get("technique", "Lean 4 machine-checked proof over a hand-written model + differential correspondence check against the Go code"),
    })
na = [{"property_id": p, "reason": "check not built yet at this commit (work in progress; see DESIGN.md §5 build order)"} for p in ALL if p not in PROPS]
m = {
    "version": 1,
    "setup_cmd": "./setup.sh",
    "hooks": {
        "guard": "verif",
        "enable": "go build -tags verif (the harness module replaces github.com/crewjam/saml by /repo)",
        "baseline_off_cmd": "cd /repo && go test -mod=mod -vet=off -count=1 ./...",
        "source_commits": json.load(open(os.path.join(ROOT, "hooks.json")))["source_commits"] if os.path.exists(os.path.join(ROOT, "hooks.json")) else [],
        "add_only": True,
    },
    "engines": [{"name": "lean4-proof+correspondence", "path": "check", "serves_properties": [c["property_id"] for c in checks],
                 "kind_free_text": "Lean 4 theorems (lean/SamlVerif/Props) + Go differential harness (harness/) + fact extractor (extract/)"}],
    "checks": checks,
    "notes": "See DESIGN.md. Known findings: known_findings.json.",
    "not_applicable": na,
}
json.dump(m, open(os.path.join(ROOT, "MANIFEST.json"), "w"), indent=1)
print("MANIFEST.json:", len(checks), "checks,", len(na), "not claimed")
