#!/bin/sh
# usage: confirm_mut.sh <name> <subdir-for-demo (., samlsp, xmlenc, samlidp)>   — confirms a seeded change in its scratch worktree
N=$1; SUB=${2:-.}
W=/tmp/mut/$N; O=/tmp/mut/out/$N
export GOFLAGS=-mod=mod GOPROXY=off GOSUMDB=off GOTOOLCHAIN=local
cd $W || exit 2
git checkout -q -- . ; git clean -fdq
git apply $O/patch.diff || { echo "PATCH-DOES-NOT-APPLY"; exit 2; }
go build ./... || { echo "BUILD-FAILS"; exit 1; }
go test -vet=off -count=1 ./... > $O/suite.log 2>&1 && echo "SUITE-PASSES-WITH-PATCH" || { echo "SUITE-FAILS-WITH-PATCH"; tail -5 $O/suite.log; }
for f in $O/*_test.go; do cp $f $W/$SUB/zz_$(basename $f); done
(cd $W/$SUB && go test -vet=off -count=1 -run 'Demo|Seeded|C[0-9][0-9]' . > $O/demo_with.log 2>&1) && echo "DEMO-PASSES-WITH-PATCH(bad)" || echo "DEMO-FAILS-WITH-PATCH(good)"
git apply -R $O/patch.diff
(cd $W/$SUB && go test -vet=off -count=1 -run 'Demo|Seeded|C[0-9][0-9]' . > $O/demo_without.log 2>&1) && echo "DEMO-PASSES-WITHOUT-PATCH(good)" || { echo "DEMO-FAILS-WITHOUT-PATCH(bad)"; tail -5 $O/demo_without.log; }
rm -f $W/$SUB/zz_*_test.go
