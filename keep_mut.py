#!/usr/bin/env python3
"""keep_mut.py <name> <prop> <caught-by|MISSED> <needs...> — store a confirmed seeded change under /verif/seeded/<name>/ and drop its worktree."""
import json, os, shutil, subprocess, sys
name, prop, caught, needs = sys.argv[1], sys.argv[2], sys.argv[3], " ".join(sys.argv[4:])
src = f"/tmp/mut/out/{name}"
dst = f"/verif/seeded/{name}"
os.makedirs(dst, exist_ok=True)
for f in os.listdir(src):
    if f.endswith((".diff", ".go", ".md")):
        shutil.copy(os.path.join(src, f), os.path.join(dst, f if not f.endswith("_test.go") else f + ".txt"))
meta = {"property": prop, "breaks": open(os.path.join(src, "README.md")).read()[:1500] if os.path.exists(os.path.join(src, "README.md")) else "",
        "needs_to_manifest": needs,
        "confirmed": "confirm_mut.sh in the scratch worktree: full suite passes with the patch; demo fails with it and passes without it",
        "ran": f"./seedtest.sh {prop} /verif/seeded/{name}  (git -C /repo apply; ./check {prop} quick; git -C /repo checkout -- .)",
        "result": caught}
json.dump(meta, open(os.path.join(dst, "meta.json"), "w"), indent=1)
subprocess.run(["git", "-C", "/repo", "worktree", "remove", "--force", f"/tmp/mut/{name}"])
print("kept", dst)
