package main

// Facts about what the IdP emits (C06, C07, C08): the source expression of every field of the
// Assertion / Response literals, list shapes, signing-context use, XML write settings per
// serialisation site, encryption parameters.

import (
	"bytes"
	"fmt"
	"go/ast"
	"go/printer"
	"go/token"
	"path/filepath"
	"sort"
	"strings"
)

func srcText(fset *token.FileSet, e ast.Expr) string {
	var buf bytes.Buffer
	if err := printer.Fprint(&buf, fset, e); err != nil {
		return "<unprintable>"
	}
	return strings.Join(strings.Fields(buf.String()), " ")
}

type flatFacts struct {
	fset    *token.FileSet
	sources [][2]string
	lengths []struct {
		path string
		n    int
	}
}

func unwrapLit(e ast.Expr) (*ast.CompositeLit, bool) {
	if u, ok := e.(*ast.UnaryExpr); ok && u.Op == token.AND {
		e = u.X
	}
	cl, ok := e.(*ast.CompositeLit)
	return cl, ok
}

func (ff *flatFacts) flatten(path string, cl *ast.CompositeLit) {
	if _, isArr := cl.Type.(*ast.ArrayType); isArr {
		ff.lengths = append(ff.lengths, struct {
			path string
			n    int
		}{path, len(cl.Elts)})
		for i, el := range cl.Elts {
			if sub, ok := unwrapLit(el); ok {
				ff.flatten(fmt.Sprintf("%s[%d]", path, i), sub)
			} else {
				ff.sources = append(ff.sources, [2]string{fmt.Sprintf("%s[%d]", path, i), srcText(ff.fset, el)})
			}
		}
		return
	}
	for _, el := range cl.Elts {
		kv, ok := el.(*ast.KeyValueExpr)
		if !ok {
			fail("%s: positional composite literal", path)
			continue
		}
		p := path + "." + exprStr(kv.Key)
		if sub, ok := unwrapLit(kv.Value); ok {
			ff.flatten(p, sub)
		} else {
			ff.sources = append(ff.sources, [2]string{p, srcText(ff.fset, kv.Value)})
		}
	}
}

func findFunc(root *pkgFiles, file, name string) *ast.FuncDecl {
	f := root.files[file]
	if f == nil {
		return nil
	}
	for _, d := range f.Decls {
		if fd, ok := d.(*ast.FuncDecl); ok && fd.Name.Name == name && fd.Body != nil {
			return fd
		}
	}
	return nil
}

func idpFacts(b *strings.Builder, root *pkgFiles) {
	ff := &flatFacts{fset: root.fset}
	// MakeAssertion: req.Assertion = &Assertion{…}
	if fd := findFunc(root, "identity_provider.go", "MakeAssertion"); fd != nil {
		n := 0
		ast.Inspect(fd.Body, func(nd ast.Node) bool {
			as, ok := nd.(*ast.AssignStmt)
			if !ok || len(as.Lhs) != 1 || len(as.Rhs) != 1 || exprStr(as.Lhs[0]) != "req.Assertion" {
				return true
			}
			n++
			if cl, ok := unwrapLit(as.Rhs[0]); ok && exprStr(cl.Type) == "Assertion" {
				ff.flatten("Assertion", cl)
			} else {
				fail("MakeAssertion: req.Assertion is not assigned an &Assertion{…} literal")
			}
			return true
		})
		if n != 1 {
			fail("MakeAssertion: %d assignments to req.Assertion", n)
		}
	} else {
		fail("MakeAssertion not found")
	}
	// MakeResponse: response := &Response{…}
	if fd := findFunc(root, "identity_provider.go", "MakeResponse"); fd != nil {
		n := 0
		ast.Inspect(fd.Body, func(nd ast.Node) bool {
			switch x := nd.(type) {
			case *ast.AssignStmt:
				if len(x.Lhs) == 1 && len(x.Rhs) == 1 && exprStr(x.Lhs[0]) == "response" {
					n++
					if cl, ok := unwrapLit(x.Rhs[0]); ok && exprStr(cl.Type) == "Response" {
						ff.flatten("Response", cl)
					} else {
						fail("MakeResponse: response is not a &Response{…} literal")
					}
				} else if len(x.Lhs) == 1 && strings.HasPrefix(exprStr(x.Lhs[0]), "response.") && exprStr(x.Lhs[0]) != "response.Signature" {
					fail("MakeResponse: field %s assigned after the literal", exprStr(x.Lhs[0]))
				}
			}
			return true
		})
		if n != 1 {
			fail("MakeResponse: %d assignments to response", n)
		}
	} else {
		fail("MakeResponse not found")
	}
	// PostBinding: form.X = …
	if fd := findFunc(root, "identity_provider.go", "PostBinding"); fd != nil {
		ast.Inspect(fd.Body, func(nd ast.Node) bool {
			as, ok := nd.(*ast.AssignStmt)
			if ok && len(as.Lhs) == 1 && len(as.Rhs) == 1 && strings.HasPrefix(exprStr(as.Lhs[0]), "form.") {
				ff.sources = append(ff.sources, [2]string{"Form." + strings.TrimPrefix(exprStr(as.Lhs[0]), "form."), srcText(root.fset, as.Rhs[0])})
			}
			return true
		})
	} else {
		fail("PostBinding not found")
	}
	b.WriteString("/-- source expression of every field of the `Assertion` / `Response` literals and the POST form -/\ndef idpFieldSources : List (String × String) := [\n")
	for i, s := range ff.sources {
		sep := ","
		if i == len(ff.sources)-1 {
			sep = ""
		}
		fmt.Fprintf(b, "  (%s, %s)%s\n", leanStr(s[0]), leanStr(s[1]), sep)
	}
	b.WriteString("]\n\n")
	b.WriteString("def idpListLengths : List (String × Nat) := [")
	for i, l := range ff.lengths {
		if i > 0 {
			b.WriteString(", ")
		}
		fmt.Fprintf(b, "(%s, %d)", leanStr(l.path), l.n)
	}
	b.WriteString("]\n\n")

	// SignEnveloped call sites of identity_provider.go and where their receiver comes from
	var sites []string
	if f := root.files["identity_provider.go"]; f != nil {
		for _, d := range f.Decls {
			fd, ok := d.(*ast.FuncDecl)
			if !ok || fd.Body == nil {
				continue
			}
			origin := map[string]string{}
			ast.Inspect(fd.Body, func(nd ast.Node) bool {
				switch x := nd.(type) {
				case *ast.AssignStmt:
					if len(x.Rhs) == 1 && len(x.Lhs) >= 1 {
						if ce, ok := x.Rhs[0].(*ast.CallExpr); ok {
							origin[exprStr(x.Lhs[0])] = exprStr(ce.Fun)
						}
					}
				case *ast.CallExpr:
					if se, ok := x.Fun.(*ast.SelectorExpr); ok && se.Sel.Name == "SignEnveloped" {
						o := origin[exprStr(se.X)]
						o = strings.TrimPrefix(o, "req.")
						sites = append(sites, fd.Name.Name+":"+o)
					}
				}
				return true
			})
		}
	}
	writeStrList(b, "idpSignEnvelopedSites", sites)

	// XML write settings: the value of xmlWriteSettings and, for every function of package saml that
	// creates an etree document and writes it, whether it installs those settings
	canonText, canonAttr := false, false
	foundWS := false
	for _, fn := range sortedFileNames(root) {
		for _, d := range root.files[fn].Decls {
			g, ok := d.(*ast.GenDecl)
			if !ok || g.Tok != token.VAR {
				continue
			}
			for _, sp := range g.Specs {
				vs := sp.(*ast.ValueSpec)
				for i, nm := range vs.Names {
					if nm.Name != "xmlWriteSettings" || i >= len(vs.Values) {
						continue
					}
					foundWS = true
					if cl, ok := vs.Values[i].(*ast.CompositeLit); ok {
						fs := compositeFields(cl)
						canonText = fs["CanonicalText"] != nil && exprStr(fs["CanonicalText"]) == "true"
						canonAttr = fs["CanonicalAttrVal"] != nil && exprStr(fs["CanonicalAttrVal"]) == "true"
					}
				}
			}
		}
	}
	if !foundWS {
		fail("xmlWriteSettings not found")
	}
	fmt.Fprintf(b, "/-- `xmlWriteSettings`: (CanonicalText, CanonicalAttrVal) -/\ndef xmlWriteSettingsCanonical : Bool × Bool := (%v, %v)\n\n", canonText, canonAttr)
	type site struct {
		name string
		ok   bool
	}
	var ws []site
	for _, fn := range sortedFileNames(root) {
		for _, d := range root.files[fn].Decls {
			fd, ok := d.(*ast.FuncDecl)
			if !ok || fd.Body == nil || fd.Name.Name == "writeXML" || fd.Name.Name == "xmlToBytes" {
				continue
			}
			docs := map[string]bool{}   // variables holding etree.NewDocument()
			direct := map[string]bool{} // … written with etree's own WriteTo* (bypassing the package's writer)
			helper := map[string]bool{} // … written through writeXML / xmlToBytes
			ast.Inspect(fd.Body, func(nd ast.Node) bool {
				switch x := nd.(type) {
				case *ast.AssignStmt:
					if len(x.Lhs) == 1 && len(x.Rhs) == 1 {
						if ce, ok := x.Rhs[0].(*ast.CallExpr); ok && exprStr(ce.Fun) == "etree.NewDocument" {
							docs[exprStr(x.Lhs[0])] = true
						}
					}
				case *ast.CallExpr:
					if se, ok := x.Fun.(*ast.SelectorExpr); ok && strings.HasPrefix(se.Sel.Name, "WriteTo") {
						direct[exprStr(se.X)] = true
					}
					if f := exprStr(x.Fun); (f == "writeXML" || f == "xmlToBytes") && len(x.Args) >= 1 {
						helper[exprStr(x.Args[0])] = true
					}
				}
				return true
			})
			var names []string
			for v := range docs {
				if direct[v] || helper[v] {
					names = append(names, v)
				}
			}
			sort.Strings(names)
			for _, v := range names {
				ws = append(ws, site{fn + ":" + fd.Name.Name + ":" + v, helper[v] && !direct[v]})
			}
		}
	}
	b.WriteString("/-- every place package saml serialises an etree document, and whether it goes through the package's writer (writeXML / xmlToBytes) -/\ndef xmlWriteSites : List (String × Bool) := [")
	for i, s := range ws {
		if i > 0 {
			b.WriteString(", ")
		}
		fmt.Fprintf(b, "(%s, %v)", leanStr(s.name), s.ok)
	}
	b.WriteString("]\n\n")
	// the package's writer: installs xmlWriteSettings and wraps the destination in crEscaper
	var wx []string
	if fd := findFunc(root, "util.go", "writeXML"); fd != nil {
		for _, st := range fd.Body.List {
			wx = append(wx, srcText2(root.fset, st))
		}
	} else {
		fail("writeXML not found")
	}
	writeStrList(b, "writeXMLBody", wx)
	var ce []string
	if fd := findFunc(root, "util.go", "Write"); fd != nil {
		ast.Inspect(fd.Body, func(nd ast.Node) bool {
			if c, ok := nd.(*ast.CallExpr); ok && exprStr(c.Fun) == "bytes.ReplaceAll" {
				ce = append(ce, srcText(root.fset, c))
			}
			return true
		})
	} else {
		fail("crEscaper.Write not found")
	}
	writeStrList(b, "crEscaperReplace", ce)

	// MakeAssertionEl: encryption parameters and the error handling of getSPEncryptionCert
	var encParams []string
	plaintextOn := []string{}
	if fd := findFunc(root, "identity_provider.go", "MakeAssertionEl"); fd != nil {
		ast.Inspect(fd.Body, func(nd ast.Node) bool {
			switch x := nd.(type) {
			case *ast.AssignStmt:
				if len(x.Lhs) == 1 && len(x.Rhs) == 1 {
					l := exprStr(x.Lhs[0])
					if l == "encryptor" || strings.HasPrefix(l, "encryptor.") {
						encParams = append(encParams, l+"="+srcText(root.fset, x.Rhs[0]))
					}
				}
			case *ast.IfStmt:
				// if err == X { req.AssertionEl = signedAssertionEl; return nil }
				cond := srcText(root.fset, x.Cond)
				assignsPlain := false
				for _, st := range x.Body.List {
					if as, ok := st.(*ast.AssignStmt); ok && len(as.Lhs) == 1 && exprStr(as.Lhs[0]) == "req.AssertionEl" && exprStr(as.Rhs[0]) == "signedAssertionEl" {
						assignsPlain = true
					}
				}
				if assignsPlain {
					plaintextOn = append(plaintextOn, cond)
				}
			}
			return true
		})
	} else {
		fail("MakeAssertionEl not found")
	}
	writeStrList(b, "idpEncryptorParams", encParams)
	b.WriteString("/-- conditions under which `MakeAssertionEl` sends the signed assertion unencrypted -/\n")
	writeStrList(b, "idpPlaintextConditions", plaintextOn)
}

// spFacts: structural facts of the service provider's signature handling (C01).
func spFacts(b *strings.Builder, root *pkgFiles) {
	f := root.files["service_provider.go"]
	if f == nil {
		fail("service_provider.go not found")
		return
	}
	// 1. every function that calls xrv.Validate
	var xrvSites []string
	for _, d := range f.Decls {
		fd, ok := d.(*ast.FuncDecl)
		if !ok || fd.Body == nil {
			continue
		}
		n := 0
		ast.Inspect(fd.Body, func(nd ast.Node) bool {
			if ce, ok := nd.(*ast.CallExpr); ok && exprStr(ce.Fun) == "xrv.Validate" {
				n++
			}
			return true
		})
		for i := 0; i < n; i++ {
			xrvSites = append(xrvSites, fd.Name.Name)
		}
	}
	writeStrList(b, "xrvCallSites", xrvSites)

	// 2. which key-descriptor uses getIDPSigningCerts accepts
	var uses []string
	if fd := findFunc(root, "service_provider.go", "getIDPSigningCerts"); fd != nil {
		ast.Inspect(fd.Body, func(nd ast.Node) bool {
			sw, ok := nd.(*ast.SwitchStmt)
			if !ok || exprStr(sw.Tag) != "keyDescriptor.Use" {
				return true
			}
			for _, st := range sw.Body.List {
				cc := st.(*ast.CaseClause)
				if cc.List == nil {
					uses = append(uses, "<default>")
				}
				for _, e := range cc.List {
					uses = append(uses, exprStr(e))
				}
			}
			return false
		})
	} else {
		fail("getIDPSigningCerts not found")
	}
	writeStrList(b, "signingCertUses", uses)

	// 3. the conditions under which findChildren skips or fails a child
	var conds []string
	if fd := findFunc(root, "service_provider.go", "findChildren"); fd != nil {
		ast.Inspect(fd.Body, func(nd ast.Node) bool {
			if is, ok := nd.(*ast.IfStmt); ok {
				conds = append(conds, srcText(root.fset, is.Cond))
			}
			return true
		})
	} else {
		fail("findChildren not found")
	}
	writeStrList(b, "findChildrenConds", conds)

	// 4. parseAssertion validates and unmarshals the same element
	var pa []string
	if fd := findFunc(root, "service_provider.go", "parseAssertion"); fd != nil {
		ast.Inspect(fd.Body, func(nd ast.Node) bool {
			if ce, ok := nd.(*ast.CallExpr); ok {
				switch exprStr(ce.Fun) {
				case "sp.validateSignature", "unmarshalElement", "sp.validateAssertion":
					if len(ce.Args) > 0 {
						pa = append(pa, exprStr(ce.Fun)+"("+srcText(root.fset, ce.Args[0])+")")
					}
				}
			}
			return true
		})
	} else {
		fail("parseAssertion not found")
	}
	writeStrList(b, "parseAssertionCalls", pa)

	// 5. what parseResponse does with the Response signature verdict
	var sw5 []string
	if fd := findFunc(root, "service_provider.go", "parseResponse"); fd != nil {
		ast.Inspect(fd.Body, func(nd ast.Node) bool {
			sw, ok := nd.(*ast.SwitchStmt)
			if !ok || exprStr(sw.Tag) != "responseSignatureErr" {
				return true
			}
			for _, st := range sw.Body.List {
				cc := st.(*ast.CaseClause)
				lhs := "<default>"
				if cc.List != nil {
					var l []string
					for _, e := range cc.List {
						l = append(l, exprStr(e))
					}
					lhs = strings.Join(l, ",")
				}
				body := ""
				if len(cc.Body) > 0 {
					body = srcText2(root.fset, cc.Body[0])
				}
				sw5 = append(sw5, lhs+" => "+body)
			}
			return false
		})
	} else {
		fail("parseResponse not found")
	}
	writeStrList(b, "responseSignatureSwitch", sw5)

	// 6. how validateSignature looks for the Signature and which element it hands to goxmldsig
	var vs []string
	if fd := findFunc(root, "service_provider.go", "validateSignature"); fd != nil {
		ast.Inspect(fd.Body, func(nd ast.Node) bool {
			if ce, ok := nd.(*ast.CallExpr); ok {
				switch exprStr(ce.Fun) {
				case "findChild", "validationContext.Validate", "etreeutils.NSDetatch":
					var as []string
					for _, a := range ce.Args {
						as = append(as, srcText(root.fset, a))
					}
					vs = append(vs, exprStr(ce.Fun)+"("+strings.Join(as, ", ")+")")
				}
			}
			return true
		})
	} else {
		fail("validateSignature not found")
	}
	writeStrList(b, "validateSignatureCalls", vs)
}

func srcText2(fset *token.FileSet, n ast.Node) string {
	var buf bytes.Buffer
	if err := printer.Fprint(&buf, fset, n); err != nil {
		return "<unprintable>"
	}
	return strings.Join(strings.Fields(buf.String()), " ")
}

// templateDataFacts: for every `tmpl.Execute(w, x)` in the three packages, the fields of the value handed to the template, with their
// declared types and the expressions assigned to them.  A field of a type that html/template does not escape (template.HTML, …) or a
// conversion to such a type in the value expression shows up here.
func templateDataFacts(b *strings.Builder, repo string) {
	type row struct{ site, field, typ, val string }
	var rows []row
	for _, dir := range []string{".", "samlidp", "samlsp"} {
		p := parseDir(filepath.Join(repo, dir))
		// named struct types of the package
		structs := map[string]*ast.StructType{}
		for _, fn := range sortedFileNames(p) {
			for _, d := range p.files[fn].Decls {
				if g, ok := d.(*ast.GenDecl); ok && g.Tok == token.TYPE {
					for _, sp := range g.Specs {
						ts := sp.(*ast.TypeSpec)
						if st, ok := ts.Type.(*ast.StructType); ok {
							structs[ts.Name.Name] = st
						}
					}
				}
			}
		}
		for _, fn := range sortedFileNames(p) {
			for _, d := range p.files[fn].Decls {
				fd, ok := d.(*ast.FuncDecl)
				if !ok || fd.Body == nil {
					continue
				}
				// local variables bound to composite literals / declared with a named type
				lits := map[string]*ast.CompositeLit{}
				named := map[string]string{}
				ast.Inspect(fd.Body, func(nd ast.Node) bool {
					switch x := nd.(type) {
					case *ast.AssignStmt:
						if len(x.Lhs) >= 1 && len(x.Rhs) == 1 {
							if cl, ok := unwrapLit(x.Rhs[0]); ok {
								lits[exprStr(x.Lhs[0])] = cl
							}
							if ce, ok := x.Rhs[0].(*ast.CallExpr); ok && len(x.Lhs) == 2 && strings.HasSuffix(exprStr(ce.Fun), "PostBinding") {
								named[exprStr(x.Lhs[0])] = "IdpAuthnRequestForm"
							}
						}
					case *ast.DeclStmt:
						if g, ok := x.Decl.(*ast.GenDecl); ok {
							for _, sp := range g.Specs {
								if vs, ok := sp.(*ast.ValueSpec); ok && vs.Type != nil {
									for _, n := range vs.Names {
										named[n.Name] = exprStr(vs.Type)
									}
								}
							}
						}
					}
					return true
				})
				ast.Inspect(fd.Body, func(nd ast.Node) bool {
					ce, ok := nd.(*ast.CallExpr)
					if !ok || len(ce.Args) != 2 {
						return true
					}
					se, ok := ce.Fun.(*ast.SelectorExpr)
					if !ok || se.Sel.Name != "Execute" {
						return true
					}
					site := dir + "/" + fn + ":" + fd.Name.Name
					arg := exprStr(ce.Args[1])
					if cl, ok := lits[arg]; ok {
						if st, ok := cl.Type.(*ast.StructType); ok {
							types := map[string]string{}
							for _, f := range st.Fields.List {
								for _, n := range f.Names {
									types[n.Name] = srcText(p.fset, f.Type)
								}
							}
							for _, el := range cl.Elts {
								if kv, ok := el.(*ast.KeyValueExpr); ok {
									k := exprStr(kv.Key)
									rows = append(rows, row{site, k, types[k], srcText(p.fset, kv.Value)})
								}
							}
							return true
						}
					}
					if tn, ok := named[arg]; ok {
						if st, ok := structs[tn]; ok {
							for _, f := range st.Fields.List {
								for _, n := range f.Names {
									rows = append(rows, row{site, n.Name, srcText(p.fset, f.Type), "<" + tn + ">"})
								}
							}
							return true
						}
					}
					fail("%s: cannot determine the data handed to Execute (%s)", site, arg)
					return true
				})
			}
		}
	}
	b.WriteString("/-- data handed to every template execution: (site, field, declared type, value expression) -/\ndef templateData : List (String × String × String × String) := [\n")
	for i, r := range rows {
		sep := ","
		if i == len(rows)-1 {
			sep = ""
		}
		fmt.Fprintf(b, "  (%s, %s, %s, %s)%s\n", leanStr(r.site), leanStr(r.field), leanStr(r.typ), leanStr(r.val), sep)
	}
	b.WriteString("]\n\n")
}
