// Translator (DESIGN §7.8): a small subset of Go — guard chains, range loops, locals, early returns,
// nil tests, field selections — is translated, function by function, from the *current* source of
// /repo into Lean 4 definitions in the `Outcome` monad (`lean/SamlVerif/Generated/Trans.lean`).
// The theorems of `Props/Trans*.lean` relate these regenerated definitions to the hand-written
// models, so they are re-checked against what the code says now on every run.
//
// Conventions of the translation (module `SamlVerif.Model.GoSem` holds the run-time support):
//   * every translated function returns `Outcome T`; `.panic` is a Go run-time panic (nil dereference,
//     explicit `panic`); Go `error` results are *values* (`GoError = Option String`, `none` = nil;
//     the string is the format literal of the `fmt.Errorf` / the name of the error variable);
//   * a method receiver is taken to be non-nil and passed as the structure itself; every other
//     pointer is an `Option`, dereferenced by `deref` (panic on `none`);
//   * slices are `List`s, `time.Time` / `RelaxedTime` / `time.Duration` are `Int`s with `Add` = `+`,
//     `Before` = `<`, `After` = `>`; `url.URL` is an opaque record whose `String()` is a field;
//   * package-level variables that the functions read become fields of `Env`; `time.Now()` is `env.timeNow`;
//   * interface-typed fields become records of functions, function-typed fields `Option`s of functions;
//   * only the structure fields the translated functions use are generated;
//   * three packages are translated: the root package (Generated/Trans.lean), xmlenc (Generated/TransXmlenc.lean) and samlsp
//     (Generated/TransSamlsp.lean); samlsp sees the root package's types through a real `types.Package` (the root is type-checked
//     first) and the root's struct declarations under their own names;
//   * bytes are `UInt8`; `make([]T, n)`, `xs[i] = v` (only on a slice made by `make` here and never aliased: `freshSlices`),
//     `xs[:n]`, `xs[n:]`, `append(a, b...)`, `a % b`, `a / b`, `byte(x)`, `int(b)` have checked counterparts in GoSem (a bad
//     index, a negative length, a zero divisor are panics); `int` is unbounded (`Int`): no wrap-around is modelled;
//   * an HTTP handler (spec flag `trace`) returns no value in Go: its definition returns the list of calls that were handed the
//     `http.ResponseWriter`, in order (`List Event`: the callee as written, its string / error / status arguments), each event
//     appended before the call is made; `r.Form.Get(k)` / `r.ParseForm()` are the `Env` functions `formGet` / `parseForm`.
//
// Anything outside the subset is recorded in `transFailures` (an obligation of Props/TransFacts says
// the list is empty), never guessed.
package main

import (
	"fmt"
	"go/ast"
	"go/constant"
	"go/parser"
	"go/printer"
	"io"
	"go/token"
	"go/types"
	"os"
	"path/filepath"
	"sort"
	"strconv"
	"strings"
)

type fakeImporter struct{ pkgs map[string]*types.Package }

func (f *fakeImporter) Import(path string) (*types.Package, error) {
	if p, ok := f.pkgs[path]; ok {
		return p, nil
	}
	name := path
	if i := strings.LastIndex(path, "/"); i >= 0 {
		name = path[i+1:]
	}
	if name == "goxmldsig" {
		name = "dsig"
	}
	if name == "xml-roundtrip-validator" {
		name = "xrv"
	}
	p := types.NewPackage(path, name)
	p.MarkComplete()
	f.pkgs[path] = p
	return p, nil
}

type transSpec struct {
	fn     string // function or method name
	recv   string // receiver type name ("" for plain functions)
	anchor string // when non-empty: translate only from the first top-level statement whose source starts with this text
	mutRecv bool  // the receiver is modified: the function returns (receiver, result)
	until   string // when non-empty: translate only up to (excluding) the first top-level statement whose source starts with this text …
	yield   string // … and return this local (with a nil error) there; the first result of the earlier returns becomes its zero value
	yieldTy string // Lean type of that local
	state   string // a local pointer variable of the translated range that is modified through: it becomes the function's state (like a modified receiver) and its result
	as      string // name of the generated definition (default: the Go function's name)
	inside  string // when non-empty: the translated statements are the body of the first top-level `if` whose source starts with this text
	trace   bool   // an HTTP handler without results: the definition returns the list of effects on the ResponseWriter, in order
}

type trans struct {
	p        *pkgFiles
	info     *types.Info
	structs  map[string]*ast.StructType
	ifaces   map[string]*ast.InterfaceType
	named    map[string]ast.Expr // other named types: name -> underlying type expression
	funcs    map[string]*ast.FuncDecl
	specs    map[string]transSpec
	usedF    map[string]map[string]bool // struct -> field -> used
	usedM    map[string]map[string]bool // interface -> method -> used
	envVars  map[string]string          // package-level variable -> Lean type
	useNow   bool
	fails    []string
	cur      *funcCtx
	emitted  []string
	order    []string
	done     map[string]bool
	bodies   map[string]string
	pre      []string
	tmpN     int
	nestedEmbeds map[string]bool // structures whose embedded own-package structs are kept as fields (promoted access is written nested)
	stubFields map[string]map[string]string // structure -> field promoted from a stubbed package -> Lean type
	nilable  map[string]bool   // interface types whose values may be nil in the translated code (they become `Option`s)
	foreign  string            // name of the imported package of this repository whose types are used unqualified ("saml" in samlsp)
	externs  map[string]bool   // functions kept as parameters (fields of Env)
	extSigs  map[string]string // Env field -> Lean type
	extOrder []string
}

type funcCtx struct {
	scopes    []map[string]string // Go block scopes: variable -> Lean name (Lean forbids shadowing a `let mut`; Go's `:=` in an inner block does shadow)
	fresh     int
	yieldZero string // prefix translation: what stands for the first result in the `return`s that are kept
	name    string
	recv    string
	mutRecv bool
	mutable map[string]bool
	resultIsSlice []bool
	resultIface []string // per result: the name of its interface type when that interface is nilable, else ""
	ownRecv string // (state specs) the name of the method's own receiver
	trace   bool
	traceResult bool // the traced handler also returns a value
	writers map[string]bool // parameters of type http.ResponseWriter
	freshSl map[string]bool // locals made by `make` here and never aliased: element writes are value updates
	results []ast.Expr
	retErr  bool
}

func (t *trans) failf(format string, a ...interface{}) {
	t.fails = append(t.fails, fmt.Sprintf(format, a...))
}

func (t *trans) src(n ast.Node) string {
	var b strings.Builder
	_ = printerFprint(&b, t.p.fset, n)
	return b.String()
}

func printerFprint(w io.Writer, fset *token.FileSet, n ast.Node) error {
	return printer.Fprint(w, fset, n)
}

// ---------------------------------------------------------------- types

func (t *trans) leanType(e ast.Expr) string {
	switch x := e.(type) {
	case *ast.Ident:
		switch x.Name {
		case "string":
			return "String"
		case "bool":
			return "Bool"
		case "int", "int64", "int32", "uint", "uint64", "uint32":
			return "Int"
		case "byte", "uint8":
			return "UInt8"
		case "error":
			return "GoError"
		}
		if _, ok := t.structs[x.Name]; ok {
			t.touchStruct(x.Name)
			return x.Name
		}
		if _, ok := t.ifaces[x.Name]; ok {
			t.touchStruct(x.Name)
			if t.nilable[x.Name] {
				// an interface used as a value that may be nil (a session or nothing)
				return "(Option " + x.Name + ")"
			}
			return x.Name
		}
		if u, ok := t.named[x.Name]; ok {
			return t.leanType(u)
		}
		t.failf("unsupported type %s", x.Name)
		return "Unit"
	case *ast.StarExpr:
		return "(Option " + t.leanType(x.X) + ")"
	case *ast.ArrayType:
		return "(List " + t.leanType(x.Elt) + ")"
	case *ast.MapType:
		// a map with string keys: an association list (first binding of a key wins; `mapSet` / `mapDelete` in GoSem keep one per key)
		if id, ok := x.Key.(*ast.Ident); ok && id.Name == "string" {
			return "(List (String × " + t.leanType(x.Value) + "))"
		}
	case *ast.SelectorExpr:
		switch t.src(x) {
		case "time.Time", "time.Duration":
			return "Int"
		case "url.URL":
			return "URL"
		case "http.Request":
			return "HTTPRequest"
		case "etree.Element":
			return "Element"
		case "x509.Certificate":
			return "Certificate"
		case "http.ResponseWriter":
			return "ResponseWriter"
		case "http.Cookie":
			return "Cookie"
		}
		if id, ok := x.X.(*ast.Ident); ok && t.foreign != "" && id.Name == t.foreign {
			return t.leanType(ast.NewIdent(x.Sel.Name))
		}
		t.failf("unsupported type %s", t.src(x))
		return "Unit"
	case *ast.FuncType:
		return "(Option (" + t.funcSig(x) + "))"
	}
	t.failf("unsupported type expression %s", t.src(e))
	return "Unit"
}

func (t *trans) funcSig(ft *ast.FuncType) string {
	var parts []string
	for _, f := range ft.Params.List {
		n := len(f.Names)
		if n == 0 {
			n = 1
		}
		for i := 0; i < n; i++ {
			parts = append(parts, t.leanType(f.Type))
		}
	}
	parts = append(parts, "Outcome "+t.resultType(ft.Results))
	return strings.Join(parts, " → ")
}

func (t *trans) resultType(r *ast.FieldList) string {
	if r == nil || len(r.List) == 0 {
		return "Unit"
	}
	var ts []string
	for _, f := range r.List {
		n := len(f.Names)
		if n == 0 {
			n = 1
		}
		for i := 0; i < n; i++ {
			ts = append(ts, t.leanType(f.Type))
		}
	}
	if len(ts) == 1 {
		return ts[0]
	}
	return "(" + strings.Join(ts, " × ") + ")"
}

func (t *trans) touchStruct(s string) {
	if t.usedF[s] == nil {
		t.usedF[s] = map[string]bool{}
	}
}

func (t *trans) useField(s, f string) {
	t.touchStruct(s)
	t.usedF[s][f] = true
}

// named struct / interface behind a go/types type (through pointers)
func namedOf(ty types.Type) (string, bool) {
	ptr := false
	for {
		switch x := ty.(type) {
		case *types.Pointer:
			ptr = true
			ty = x.Elem()
			continue
		case *types.Named:
			return x.Obj().Name(), ptr
		}
		return "", ptr
	}
}

func isPointer(ty types.Type) bool {
	if ty == nil {
		return false
	}
	_, ok := ty.Underlying().(*types.Pointer)
	return ok
}

func (t *trans) zeroValue(e ast.Expr) string {
	lt := t.leanType(e)
	switch {
	case lt == "String":
		return `""`
	case lt == "Bool":
		return "false"
	case lt == "Int":
		return "(0 : Int)"
	case lt == "UInt8":
		return "(0 : UInt8)"
	case lt == "GoError" || strings.HasPrefix(lt, "(Option "):
		return "none"
	case strings.HasPrefix(lt, "(List "):
		return "[]"
	}
	return "(default : " + lt + ")"
}

// ---------------------------------------------------------------- expressions

func (t *trans) isRecv(e ast.Expr) bool {
	id, ok := e.(*ast.Ident)
	return ok && t.cur != nil && t.cur.recv != "" && id.Name == t.cur.recv
}

// value of an expression of pointer type, dereferenced
func (t *trans) derefd(e ast.Expr) string {
	if t.isRecv(e) {
		return t.cur.recv
	}
	return "(← deref " + t.expr(e) + ")"
}

func (t *trans) hasEffect(e ast.Expr) bool {
	eff := false
	ast.Inspect(e, func(n ast.Node) bool {
		switch x := n.(type) {
		case *ast.SelectorExpr:
			if tv, ok := t.info.Types[x.X]; ok && isPointer(tv.Type) && !t.isRecv(x.X) {
				eff = true
			}
		case *ast.StarExpr:
			eff = true
		case *ast.CallExpr:
			if id, ok := x.Fun.(*ast.Ident); ok && id.Name == "len" {
				return true
			}
			eff = true
		case *ast.IndexExpr:
			eff = true
		}
		return !eff
	})
	return eff
}

func (t *trans) expr(e ast.Expr) string {
	if tv, ok := t.info.Types[e]; ok && tv.Value != nil {
		switch tv.Value.Kind() {
		case constant.String:
			return leanStr(constant.StringVal(tv.Value))
		case constant.Bool:
			if constant.BoolVal(tv.Value) {
				return "true"
			}
			return "false"
		case constant.Int:
			s := tv.Value.ExactString()
			if strings.HasPrefix(s, "-") {
				return "(" + s + ")"
			}
			return "(" + s + " : Int)"
		}
	}
	switch x := e.(type) {
	case *ast.ParenExpr:
		return "(" + t.expr(x.X) + ")"
	case *ast.BasicLit:
		if x.Kind == token.STRING {
			s, _ := strconv.Unquote(x.Value)
			return leanStr(s)
		}
		return "(" + x.Value + " : Int)"
	case *ast.Ident:
		switch x.Name {
		case "nil":
			return "none"
		case "true", "false":
			return x.Name
		}
		if obj, ok := t.info.Uses[x]; ok {
			if v, ok := obj.(*types.Var); ok && v.Parent() == v.Pkg().Scope() {
				t.envVar(x.Name)
				return "env." + x.Name
			}
		}
		return t.varName(x.Name)
	case *ast.SelectorExpr:
		// X.<Something>URL.Scheme / .Path where X is a (pointer to a) structure of this repository: a function of that structure
		if x.Sel.Name == "Scheme" || x.Sel.Name == "Path" {
			if inner, ok := x.X.(*ast.SelectorExpr); ok && strings.HasSuffix(inner.Sel.Name, "URL") && inner.Sel.Name != "URL" {
				if tv, ok := t.info.Types[inner.X]; ok && tv.Type != nil {
					if sn, _ := namedOf(tv.Type); sn != "" {
						if _, known := t.structs[sn]; known {
							field := "url" + x.Sel.Name + "_" + sn + "_" + inner.Sel.Name
							t.addExtern(field, t.leanType(ast.NewIdent(sn))+" → String")
							base := t.expr(inner.X)
							if isPointer(tv.Type) {
								base = t.derefd(inner.X)
							}
							return "(env." + field + " " + base + ")"
						}
					}
				}
			}
		}
		// r.URL.Path of an *http.Request: a function of the request
		if x.Sel.Name == "Path" {
			if inner, ok := x.X.(*ast.SelectorExpr); ok && inner.Sel.Name == "URL" {
				if tv, ok := t.info.Types[inner.X]; ok && tv.Type != nil && strings.HasSuffix(tv.Type.String(), "http.Request") {
					t.addExtern("requestPath", "HTTPRequest → String")
					return "(env.requestPath " + t.derefd(inner.X) + ")"
				}
			}
		}
		// r.URL.Scheme of an *http.Request: a function of the request
		if x.Sel.Name == "Scheme" {
			if inner, ok := x.X.(*ast.SelectorExpr); ok && inner.Sel.Name == "URL" {
				if tv, ok := t.info.Types[inner.X]; ok && tv.Type != nil && strings.HasSuffix(tv.Type.String(), "http.Request") {
					t.addExtern("requestScheme", "HTTPRequest → String")
					return "(env.requestScheme " + t.derefd(inner.X) + ")"
				}
				// the scheme of a URL-valued field of one of this package's structures (`opts.URL.Scheme`): a function of the structure
				if tv, ok := t.info.Types[inner.X]; ok && tv.Type != nil && !isPointer(tv.Type) {
					if sn, _ := namedOf(tv.Type); sn != "" {
						if _, own := t.structs[sn]; own {
							t.addExtern("urlScheme_"+sn, t.leanType(ast.NewIdent(sn))+" → String")
							return "(env.urlScheme_" + sn + " " + t.expr(inner.X) + ")"
						}
					}
				}
			}
		}
		// package-qualified name
		if id, ok := x.X.(*ast.Ident); ok {
			if _, isPkg := t.info.Uses[id].(*types.PkgName); isPkg {
				if id.Name == "os" && x.Sel.Name == "ErrNotExist" {
					return `(some "os.ErrNotExist")`
				}
				if id.Name == "http" && x.Sel.Name == "ErrNoCookie" {
					return `(some "http.ErrNoCookie")`
				}
				if id.Name == "http" && x.Sel.Name == "StatusFound" {
					return "(302 : Int)"
				}
				t.failf("%s: unsupported package-qualified name %s", t.cur.name, t.src(x))
				return "default"
			}
		}
		tv := t.info.Types[x.X]
		sname, _ := namedOf(tv.Type)
		if sname == "" {
			t.failf("%s: selector %s on a value of unknown type", t.cur.name, t.src(x))
			return "default"
		}
		base := t.expr(x.X)
		if isPointer(tv.Type) {
			base = t.derefd(x.X)
		}
		// a field promoted through an embedded struct of this package, in a structure whose embedded field is also used as a
		// value of its own (`claims.TrackedRequest`, `claims.Index`): the access names the embedded field
		if sel, ok := t.info.Selections[x]; ok && t.nestedEmbeds[sname] && len(sel.Index()) == 2 {
			if st, ok := sel.Recv().Underlying().(*types.Struct); ok {
				if p, isP := sel.Recv().Underlying().(*types.Pointer); isP {
					st, _ = p.Elem().Underlying().(*types.Struct)
				}
				if st != nil {
					ef := st.Field(sel.Index()[0])
					if en, _ := namedOf(ef.Type()); en != "" {
						if _, own := t.structs[en]; own {
							t.useField(sname, ef.Name())
							t.useField(en, x.Sel.Name)
							return base + "." + ef.Name() + "." + x.Sel.Name
						}
					}
				}
			}
		}
		t.useField(sname, x.Sel.Name)
		if _, direct := t.structs[sname]; direct {
			if t.promotedFieldType(t.structs[sname], x.Sel.Name, 0) == nil {
				// promoted from a struct of a stubbed package: the field is generated on the outer structure, typed by go/types
				if tvx, ok := t.info.Types[x]; ok && tvx.Type != nil {
					if t.stubFields[sname] == nil {
						t.stubFields[sname] = map[string]string{}
					}
					t.stubFields[sname][x.Sel.Name] = t.leanTypeOf(tvx.Type, t.cur.name)
				}
			}
		}
		return base + "." + x.Sel.Name
	case *ast.StarExpr:
		return t.derefd(x.X)
	case *ast.UnaryExpr:
		switch x.Op {
		case token.NOT:
			return "(!" + t.expr(x.X) + ")"
		case token.SUB:
			return "(-" + t.expr(x.X) + ")"
		case token.AND:
			if cl, ok := x.X.(*ast.CompositeLit); ok {
				if id, ok := cl.Type.(*ast.Ident); ok && isErrorTypeName(id.Name) {
					return t.expr(cl) // a pointer to an error struct is the error value
				}
			}
			return "(some " + t.expr(x.X) + ")"
		}
	case *ast.BinaryExpr:
		return t.binary(x)
	case *ast.IndexExpr:
		return "(← index " + t.expr(x.X) + " " + t.expr(x.Index) + ")"
	case *ast.SliceExpr:
		// `xs[:n]` / `xs[n:]` within the length (Go also allows a bound up to the capacity: outside the model, it panics here)
		if !x.Slice3 && x.Low == nil && x.High != nil {
			return "(← sliceTo " + t.expr(x.X) + " " + t.expr(x.High) + ")"
		}
		if !x.Slice3 && x.Low != nil && x.High == nil {
			return "(← sliceFrom " + t.expr(x.X) + " " + t.expr(x.Low) + ")"
		}
	case *ast.CompositeLit:
		if at, ok := x.Type.(*ast.ArrayType); ok && len(x.Elts) == 0 {
			return "([] : (List " + t.leanType(at.Elt) + "))"
		}
		// a value of an error type (`ErrBadStatus{…}`): only its being an error matters to the callers we translate
		if id, ok := x.Type.(*ast.Ident); ok && isErrorTypeName(id.Name) {
			return "(some " + leanStr(id.Name) + ")"
		}
		// the zero value of a struct: `T{}`
		if len(x.Elts) == 0 {
			return "(default : " + t.leanType(x.Type) + ")"
		}
		// a slice literal with elements
		if at, ok := x.Type.(*ast.ArrayType); ok && at.Len == nil {
			var els []string
			for _, el := range x.Elts {
				els = append(els, t.expr(el))
			}
			return "([" + strings.Join(els, ", ") + "] : (List " + t.leanType(at.Elt) + "))"
		}
		// a struct literal with named fields: the fields whose values are strings, booleans, integers, pointers to those or string
		// slices are set; the others (keys, certificates, clients, URLs, …) keep the structure's default and nothing is said of them
		if tvl, ok := t.info.Types[x]; ok && tvl.Type != nil {
			if sname, _ := namedOf(tvl.Type); sname != "" {
				if _, isS := t.structs[sname]; isS {
					simple := func(ty types.Type) bool {
						switch u := ty.Underlying().(type) {
						case *types.Basic:
							return u.Info()&(types.IsString|types.IsBoolean|types.IsInteger) != 0
						case *types.Pointer:
							b, ok := u.Elem().Underlying().(*types.Basic)
							return ok && b.Info()&(types.IsString|types.IsBoolean|types.IsInteger) != 0
						case *types.Slice:
							b, ok := u.Elem().Underlying().(*types.Basic)
							return ok && b.Info()&types.IsString != 0
						}
						return false
					}
					var sets []string
					allKV := true
					for _, el := range x.Elts {
						kv, ok := el.(*ast.KeyValueExpr)
						if !ok {
							allKV = false
							break
						}
						tvv, ok := t.info.Types[kv.Value]
						isCmp := false
						if be, isB := kv.Value.(*ast.BinaryExpr); isB && (be.Op == token.EQL || be.Op == token.NEQ) {
							isCmp = true
						}
						unknown := !ok || tvv.Type == nil
						if !unknown {
							if b, isB := tvv.Type.Underlying().(*types.Basic); isB && b.Kind() == types.Invalid {
								unknown = true
							}
						}
						// a *call* go/types cannot type (it goes through a package that is not loaded) is translated all the same:
						// if the translator cannot make sense of it, that is a recorded failure, not a silently dropped field
						_, isCall := kv.Value.(*ast.CallExpr)
						if !isCmp && !(unknown && isCall) && (unknown || !simple(tvv.Type)) {
							continue
						}
						k := t.src(kv.Key)
						t.useField(sname, k)
						sets = append(sets, k+" := "+t.expr(kv.Value))
					}
					if allKV {
						t.touchStruct(sname)
						if len(sets) == 0 {
							return "(default : " + sname + ")"
						}
						return "{ (default : " + sname + ") with " + strings.Join(sets, ", ") + " }"
					}
				}
			}
		}
	case *ast.CallExpr:
		return t.call(x)
	}
	t.failf("%s: unsupported expression %s", t.cur.name, t.src(e))
	return "default"
}

// struct types used as error values (`ErrBadStatus`, `InvalidResponseError`): only their being non-nil is modelled
func isErrorTypeName(n string) bool { return strings.HasPrefix(n, "Err") || strings.HasSuffix(n, "Error") }

func isNil(e ast.Expr) bool {
	id, ok := e.(*ast.Ident)
	return ok && id.Name == "nil"
}

func (t *trans) binary(x *ast.BinaryExpr) string {
	switch x.Op {
	case token.LOR, token.LAND:
		a := t.expr(x.X)
		if !t.hasEffect(x.Y) {
			op := " || "
			if x.Op == token.LAND {
				op = " && "
			}
			return "(" + a + op + t.expr(x.Y) + ")"
		}
		// Go evaluates the right operand only when needed; its effects stay inside a nested `do`
		if x.Op == token.LOR {
			return "(← (if " + a + " then pure true else (do pure " + t.expr(x.Y) + ")))"
		}
		return "(← (if " + a + " then (do pure " + t.expr(x.Y) + ") else pure false))"
	case token.EQL, token.NEQ:
		if isNil(x.Y) || isNil(x.X) {
			o := x.X
			if isNil(x.X) {
				o = x.Y
			}
			if t.isRecv(o) {
				t.failf("%s: nil test of the receiver", t.cur.name)
			}
			if x.Op == token.EQL {
				return t.expr(o) + ".isNone"
			}
			return t.expr(o) + ".isSome"
		}
		op := " == "
		if x.Op == token.NEQ {
			op = " != "
		}
		return "(" + t.expr(x.X) + op + t.expr(x.Y) + ")"
	case token.LSS, token.GTR, token.LEQ, token.GEQ, token.ADD, token.SUB, token.MUL:
		if x.Op == token.ADD {
			if tv, ok := t.info.Types[x.X]; ok && tv.Type != nil {
				if b, ok := tv.Type.Underlying().(*types.Basic); ok && b.Info()&types.IsString != 0 {
					return "(" + t.expr(x.X) + " ++ " + t.expr(x.Y) + ")"
				}
			}
		}
		return "(" + t.expr(x.X) + " " + x.Op.String() + " " + t.expr(x.Y) + ")"
	case token.REM:
		if t.isIntExpr(x.X) && (t.isIntExpr(x.Y) || t.untyped(x.Y)) {
			return "(← goMod " + t.expr(x.X) + " " + t.expr(x.Y) + ")"
		}
	case token.QUO:
		if t.isIntExpr(x.X) && t.isIntExpr(x.Y) {
			return "(← goDiv " + t.expr(x.X) + " " + t.expr(x.Y) + ")"
		}
	}
	t.failf("%s: unsupported operator in %s", t.cur.name, t.src(x))
	return "default"
}

// isIntExpr: of a signed or unsigned integer type other than byte (unbounded `Int` in the model: no wrap-around)
func (t *trans) isIntExpr(e ast.Expr) bool {
	tv, ok := t.info.Types[e]
	if !ok || tv.Type == nil {
		return false
	}
	b, ok := tv.Type.Underlying().(*types.Basic)
	return ok && b.Info()&types.IsInteger != 0 && b.Kind() != types.Uint8
}

// untyped: go/types could not type the expression (it comes from a package that is not loaded); the other operand decides
func (t *trans) untyped(e ast.Expr) bool {
	tv, ok := t.info.Types[e]
	if !ok || tv.Type == nil {
		return true
	}
	b, ok := tv.Type.Underlying().(*types.Basic)
	return ok && b.Kind() == types.Invalid
}

func (t *trans) isByteExpr(e ast.Expr) bool {
	tv, ok := t.info.Types[e]
	if !ok || tv.Type == nil {
		return false
	}
	b, ok := tv.Type.Underlying().(*types.Basic)
	return ok && b.Kind() == types.Uint8
}

func (t *trans) args(as []ast.Expr) string {
	var s []string
	for _, a := range as {
		if t.cur != nil && t.isRecv(a) {
			if tv, ok := t.info.Types[a]; ok && isPointer(tv.Type) {
				// the (non-nil) receiver handed on as a pointer
				s = append(s, "(some "+t.cur.recv+")")
				continue
			}
		}
		s = append(s, t.expr(a))
	}
	return strings.Join(s, " ")
}

// effectCall: in a traced handler, a call that is handed the ResponseWriter is an effect: it is appended to the trace (name and
// the string / error / status arguments) before the call itself is made
func (t *trans) effectCall(c *ast.CallExpr) (handled bool, value string) {
	if t.cur == nil || !t.cur.trace {
		return false, ""
	}
	// a method of the ResponseWriter itself: w.WriteHeader(status)
	if sel, ok := c.Fun.(*ast.SelectorExpr); ok {
		if id, ok := sel.X.(*ast.Ident); ok && t.cur.writers[id.Name] && sel.Sel.Name == "WriteHeader" && len(c.Args) == 1 {
			t.pre = append(t.pre, "trace' := trace' ++ [⟨"+leanStr("w.WriteHeader")+", ["+leanStr(strings.TrimPrefix(t.src(c.Args[0]), "http."))+"]⟩]")
			return true, "()"
		}
	}
	hasW := false
	for _, a := range c.Args {
		if id, ok := a.(*ast.Ident); ok && t.cur.writers[id.Name] {
			hasW = true
		}
	}
	if !hasW {
		return false, ""
	}
	name := t.src(c.Fun)
	if sel, ok := c.Fun.(*ast.SelectorExpr); ok {
		if sp, ok := t.specs[sel.Sel.Name]; ok && sp.trace {
			// another translated handler: its effects follow
			t.need(sel.Sel.Name)
			recv := t.expr(sel.X)
			t.pre = append(t.pre, "trace' := trace' ++ (← "+sel.Sel.Name+" env "+recv+" "+t.args(c.Args)+")")
			return true, "()"
		}
	}
	// the recorded arguments: strings, errors and the redirect status (by the callee's parameter types where they are known)
	var sig *types.Signature
	if tv, ok := t.info.Types[c.Fun]; ok && tv.Type != nil {
		sig, _ = tv.Type.Underlying().(*types.Signature)
	}
	var evArgs []string
	for i, a := range c.Args {
		if name == "http.Error" || name == "http.SetCookie" {
			break
		}
		if id, ok := a.(*ast.Ident); ok && t.cur.writers[id.Name] {
			continue
		}
		if t.src(a) == "http.StatusFound" {
			evArgs = append(evArgs, `"302"`)
			continue
		}
		ty := ""
		if sig != nil && i < sig.Params().Len() {
			ty = sig.Params().At(i).Type().String()
		} else if tv, ok := t.info.Types[a]; ok && tv.Type != nil {
			ty = tv.Type.String()
		}
		switch ty {
		case "string":
			evArgs = append(evArgs, t.expr(a))
		case "error":
			evArgs = append(evArgs, "(errStr "+t.expr(a)+")")
		}
	}
	if name == "http.NotFoundHandler().ServeHTTP" {
		t.pre = append(t.pre, "trace' := trace' ++ [⟨\"http.NotFound\", []⟩]")
		return true, "()"
	}
	if name == "http.SetCookie" && len(c.Args) == 2 {
		// the cookie that is set: its string and boolean fields as "Field=value" (other fields are not recorded)
		evArgs = nil
		lit, _ := c.Args[1].(*ast.CompositeLit)
		if u, ok := c.Args[1].(*ast.UnaryExpr); ok && u.Op == token.AND {
			lit, _ = u.X.(*ast.CompositeLit)
		}
		if lit == nil {
			t.failf("%s: http.SetCookie of something else than a cookie literal", t.cur.name)
		} else {
			for _, el := range lit.Elts {
				kv, ok := el.(*ast.KeyValueExpr)
				if !ok {
					continue
				}
				k := t.src(kv.Key)
				ty := ""
				if tv, ok := t.info.Types[kv.Value]; ok && tv.Type != nil {
					ty = tv.Type.Underlying().String()
				}
				switch ty {
				case "string":
					evArgs = append(evArgs, "("+leanStr(k+"=")+" ++ "+t.expr(kv.Value)+")")
				case "bool":
					evArgs = append(evArgs, "("+leanStr(k+"=")+" ++ toString "+t.expr(kv.Value)+")")
				}
			}
		}
		t.pre = append(t.pre, "trace' := trace' ++ [⟨"+leanStr(name)+", ["+strings.Join(evArgs, ", ")+"]⟩]")
		return true, "()"
	}
	if name == "http.Error" && len(c.Args) == 3 {
		// (the status as written in the source: StatusBadRequest, StatusInternalServerError, …)
		evArgs = []string{leanStr(strings.TrimPrefix(t.src(c.Args[2]), "http."))}
	}
	t.pre = append(t.pre, "trace' := trace' ++ [⟨"+leanStr(name)+", ["+strings.Join(evArgs, ", ")+"]⟩]")
	if name == "http.Redirect" || name == "http.Error" {
		return true, "()"
	}
	// a method of this package that is not translated (it renders a page): the event is all that is kept of it
	if sel, ok := c.Fun.(*ast.SelectorExpr); ok {
		if obj, ok := t.info.Uses[sel.Sel]; ok {
			if fn, ok := obj.(*types.Func); ok {
				if sig, ok := fn.Type().(*types.Signature); ok && sig.Recv() != nil {
					rn, _ := namedOf(sig.Recv().Type())
					_, isIface := t.ifaces[rn]
					_, isSpec := t.specs[sel.Sel.Name]
					if !isIface && !isSpec && t.funcs[rn+"."+sel.Sel.Name] != nil && sig.Results().Len() == 0 {
						return true, "()"
					}
				}
			}
		}
	}
	return false, ""
}

func (t *trans) call(c *ast.CallExpr) string {
	if h, v := t.effectCall(c); h {
		return v
	}
	switch f := c.Fun.(type) {
	case *ast.Ident:
		switch f.Name {
		case "len":
			return "(" + t.expr(c.Args[0]) + ".length : Int)"
		case "panic":
			return "(← (Outcome.panic " + t.expr(c.Args[0]) + " : Outcome Unit))"
		case "append":
			if len(c.Args) == 2 && c.Ellipsis == token.NoPos {
				return "(" + t.expr(c.Args[0]) + " ++ [" + t.expr(c.Args[1]) + "])"
			}
			if len(c.Args) == 2 && c.Ellipsis != token.NoPos {
				return "(" + t.expr(c.Args[0]) + " ++ " + t.expr(c.Args[1]) + ")"
			}
		case "make":
			if at, ok := c.Args[0].(*ast.ArrayType); ok && at.Len == nil && len(c.Args) == 2 {
				return "(← makeSlice " + t.expr(c.Args[1]) + " " + t.zeroValue(at.Elt) + ")"
			}
		case "string":
			// string(x) of a value whose underlying type is string (a named string type): the same string
			if len(c.Args) == 1 {
				if tv, ok := t.info.Types[c.Args[0]]; ok && tv.Type != nil {
					if b, ok := tv.Type.Underlying().(*types.Basic); ok && b.Info()&types.IsString != 0 {
						return t.expr(c.Args[0])
					}
				}
			}
		case "byte", "uint8":
			if len(c.Args) == 1 && t.isIntExpr(c.Args[0]) {
				return "(toByte " + t.expr(c.Args[0]) + ")"
			}
		case "int":
			if len(c.Args) == 1 && t.isByteExpr(c.Args[0]) {
				return "(byteToInt " + t.expr(c.Args[0]) + ")"
			}
			if len(c.Args) == 1 && t.isIntExpr(c.Args[0]) {
				if b, ok := t.info.Types[c.Args[0]].Type.Underlying().(*types.Basic); ok && b.Kind() == types.Int {
					return t.expr(c.Args[0])
				}
			}
		}
		if f.Name == "defaultSigningMethodForKey" && len(c.Args) == 1 {
			// the method that goes with the configured key: one unknown of the range
			t.addExtern("defaultSigningMethodOfKey", "String")
			return "env.defaultSigningMethodOfKey"
		}
		if f.Name == "getSPMetadata" && len(c.Args) == 1 {
			// reads and parses the request body: a function of the request
			if sel, ok := c.Args[0].(*ast.SelectorExpr); ok && sel.Sel.Name == "Body" {
				t.addExtern("getSPMetadata", "(Option HTTPRequest) → Outcome ((Option EntityDescriptor) × GoError)")
				t.touchStruct("EntityDescriptor")
				return "(← env.getSPMetadata " + t.expr(sel.X) + ")"
			}
		}
		if t.externs[f.Name] {
			return t.externCall(f.Name, "", nil, c)
		}
		if _, ok := t.specs[f.Name]; ok {
			t.need(f.Name)
			return "(← " + f.Name + " env " + t.args(c.Args) + ")"
		}
	case *ast.SelectorExpr:
		full := t.src(f)
		switch full {
		case "fmt.Errorf":
			if tv, ok := t.info.Types[c.Args[0]]; ok && tv.Value != nil && tv.Value.Kind() == constant.String {
				return "(some " + leanStr(constant.StringVal(tv.Value)) + ")"
			}
			if bl, ok := c.Args[0].(*ast.BasicLit); ok {
				s, _ := strconv.Unquote(bl.Value)
				return "(some " + leanStr(s) + ")"
			}
		case "errors.New":
			if bl, ok := c.Args[0].(*ast.BasicLit); ok {
				s, _ := strconv.Unquote(bl.Value)
				return "(some " + leanStr(s) + ")"
			}
		case "cipher.NewCBCDecrypter":
			// the decrypter is determined by the block cipher (fixed for the range) and the IV: it is represented by its IV
			if len(c.Args) == 2 {
				return t.expr(c.Args[1])
			}
		case "base64.RawURLEncoding.EncodeToString":
			if len(c.Args) == 1 && strings.HasPrefix(t.src(c.Args[0]), "randomBytes(") {
				// a fresh index drawn from the package's random source: one unknown of the function
				t.addExtern("randomIndex", "String")
				return "env.randomIndex"
			}
		case "net.SplitHostPort":
			t.addExtern("splitHostPort", "String → Outcome (String × String × GoError)")
			return "(← env.splitHostPort " + t.expr(c.Args[0]) + ")"
		case "bcrypt.GenerateFromPassword":
			if len(c.Args) == 2 {
				pw := c.Args[0]
				if conv, ok := pw.(*ast.CallExpr); ok && len(conv.Args) == 1 {
					if _, isArr := conv.Fun.(*ast.ArrayType); isArr {
						pw = conv.Args[0]
					}
				}
				t.addExtern("bcryptGenerate", "String → Outcome ((List UInt8) × GoError)")
				return "(← env.bcryptGenerate " + t.expr(pw) + ")"
			}
		case "bcrypt.CompareHashAndPassword":
			if len(c.Args) == 2 {
				pw := c.Args[1]
				if conv, ok := pw.(*ast.CallExpr); ok && len(conv.Args) == 1 {
					if _, isArr := conv.Fun.(*ast.ArrayType); isArr {
						pw = conv.Args[0] // []byte(s): the same octets
					}
				}
				t.addExtern("bcryptCompare", "(List UInt8) → String → GoError")
				return "(env.bcryptCompare " + t.expr(c.Args[0]) + " " + t.expr(pw) + ")"
			}
		case "time.Now", "saml.TimeNow":
			t.useNow = true
			return "env.timeNow"
		case "fmt.Sprintf":
			// a fresh identifier "id-%x" of random bytes: one unknown of the range
			if len(c.Args) == 2 && strings.HasPrefix(t.src(c.Args[1]), "randomBytes(") {
				if bl, ok := c.Args[0].(*ast.BasicLit); ok && bl.Value == `"id-%x"` {
					t.addExtern("freshID", "String")
					return "env.freshID"
				}
			}
			// a literal format whose verbs are all %s, with string arguments: the concatenation
			if tv, ok := t.info.Types[c.Args[0]]; ok && tv.Value != nil && tv.Value.Kind() == constant.String {
				parts := strings.Split(constant.StringVal(tv.Value), "%s")
				if len(parts) == len(c.Args) && !strings.Contains(strings.Join(parts, ""), "%") {
					out := leanStr(parts[0])
					for i, a := range c.Args[1:] {
						out += " ++ " + t.expr(a)
						if parts[i+1] != "" {
							out += " ++ " + leanStr(parts[i+1])
						}
					}
					return "(" + out + ")"
				}
			}
		case "strconv.Itoa":
			return "(itoa " + t.expr(c.Args[0]) + ")"
		case "strings.HasPrefix":
			return "(hasPrefix " + t.expr(c.Args[0]) + " " + t.expr(c.Args[1]) + ")"
		case "strings.TrimPrefix":
			return "(trimPrefix " + t.expr(c.Args[0]) + " " + t.expr(c.Args[1]) + ")"
		}
		if f.Sel.Name == "Get" && len(c.Args) == 1 {
			if inner, ok := f.X.(*ast.SelectorExpr); ok && inner.Sel.Name == "Form" {
				t.addExtern("formGet", "HTTPRequest → String → String")
				return "(env.formGet " + t.derefd(inner.X) + " " + t.expr(c.Args[0]) + ")"
			}
			if inner, ok := f.X.(*ast.SelectorExpr); ok && inner.Sel.Name == "PostForm" {
				t.addExtern("postFormGet", "HTTPRequest → String → String")
				return "(env.postFormGet " + t.derefd(inner.X) + " " + t.expr(c.Args[0]) + ")"
			}
		}
		if f.Sel.Name == "Put" && len(c.Args) == 2 {
			// Store.Put(key, &value): a write to the store — recorded in the trace of a traced handler, and an Env function for its error
			if inner, ok := f.X.(*ast.SelectorExpr); ok && inner.Sel.Name == "Store" {
				val := c.Args[1]
				if u, ok := val.(*ast.UnaryExpr); ok && u.Op == token.AND {
					val = u.X
				}
				if tn, _ := namedOf(t.info.Types[val].Type); tn != "" {
					field := "storePut_" + tn
					t.addExtern(field, "String → "+t.leanType(ast.NewIdent(tn))+" → Outcome GoError")
					if t.cur.trace {
						t.pre = append(t.pre, "trace' := trace' ++ [⟨\"Store.Put\", ["+t.expr(c.Args[0])+"]⟩]")
					}
					return "(← env." + field + " " + t.expr(c.Args[0]) + " " + t.expr(val) + ")"
				}
			}
		}
		if f.Sel.Name == "List" && len(c.Args) == 1 {
			if inner, ok := f.X.(*ast.SelectorExpr); ok && inner.Sel.Name == "Store" {
				t.addExtern("storeList", "String → Outcome ((List String) × GoError)")
				return "(← env.storeList " + t.expr(c.Args[0]) + ")"
			}
		}
		if f.Sel.Name == "Delete" && len(c.Args) == 1 {
			if inner, ok := f.X.(*ast.SelectorExpr); ok && inner.Sel.Name == "Store" {
				t.addExtern("storeDelete", "String → Outcome GoError")
				if t.cur.trace {
					t.pre = append(t.pre, "trace' := trace' ++ [⟨\"Store.Delete\", ["+t.expr(c.Args[0])+"]⟩]")
				}
				return "(← env.storeDelete " + t.expr(c.Args[0]) + ")"
			}
		}
		if f.Sel.Name == "PathValue" && len(c.Args) == 1 {
			t.addExtern("pathValue", "HTTPRequest → String → String")
			return "(env.pathValue " + t.derefd(f.X) + " " + t.expr(c.Args[0]) + ")"
		}
		if f.Sel.Name == "Get" && len(c.Args) == 2 {
			// Store.Get(key, &value) / Store.Get(key, pointer): the store fills the value; the Env function returns it with the error
			if inner, ok := f.X.(*ast.SelectorExpr); ok && inner.Sel.Name == "Store" {
				var id *ast.Ident
				isAddr := false
				switch a := c.Args[1].(type) {
				case *ast.Ident:
					id = a
				case *ast.UnaryExpr:
					if a.Op == token.AND {
						id, _ = a.X.(*ast.Ident)
						isAddr = true
					}
				}
				if id != nil {
					ty := t.info.Types[c.Args[1]].Type
					if p, ok := ty.(*types.Pointer); ok {
						ty = p.Elem()
					}
					tn, _ := namedOf(ty)
					if tn != "" {
						field := "storeGet_" + tn
						t.addExtern(field, "String → Outcome ("+t.leanType(ast.NewIdent(tn))+" × GoError)")
						t.tmpN++
						tmp := fmt.Sprintf("call%d'", t.tmpN)
						val := tmp + ".1"
						if !isAddr {
							val = "(some " + tmp + ".1)"
						}
						t.pre = append(t.pre, "let "+tmp+" := (← env."+field+" "+t.expr(c.Args[0])+")", t.varName(id.Name)+" := "+val)
						t.cur.mutable[id.Name] = true
						return tmp + ".2"
					}
				}
			}
		}
		if (f.Sel.Name == "VerifyAudience" || f.Sel.Name == "VerifyIssuer") && len(c.Args) == 2 {
			// the registered-claims checks of the JWT library: functions of the claims value and the expected string
			if tv, ok := t.info.Types[f.X]; ok {
				if sn, _ := namedOf(tv.Type); sn != "" {
					field := strings.ToLower(f.Sel.Name[:1]) + f.Sel.Name[1:] + "_" + sn
					t.addExtern(field, t.leanType(ast.NewIdent(sn))+" → String → Bool → Bool")
					return "(env." + field + " " + t.expr(f.X) + " " + t.args(c.Args) + ")"
				}
			}
		}
		if f.Sel.Name == "BlockSize" && len(c.Args) == 0 {
			// the block size of the cipher set up just before the translated range: one unknown of the range
			t.addExtern("blockSize", "Int")
			return "env.blockSize"
		}
		if f.Sel.Name == "Root" && len(c.Args) == 0 {
			// the root element of the document parsed just before the translated range: one unknown of the range
			t.addExtern("docRoot", "(Option Element)")
			return "env.docRoot"
		}
		if f.Sel.Name == "Cookies" && len(c.Args) == 0 {
			t.addExtern("cookies", "HTTPRequest → (List (Option Cookie))")
			return "(env.cookies " + t.derefd(f.X) + ")"
		}
		if f.Sel.Name == "Cookie" && len(c.Args) == 1 {
			t.addExtern("cookie", "HTTPRequest → String → Outcome ((Option Cookie) × GoError)")
			return "(← env.cookie " + t.derefd(f.X) + " " + t.expr(c.Args[0]) + ")"
		}
		if f.Sel.Name == "ParseForm" && len(c.Args) == 0 {
			t.addExtern("parseForm", "(Option HTTPRequest) → Outcome GoError")
			return "(← env.parseForm " + t.expr(f.X) + ")"
		}
		switch f.Sel.Name {
		case "Add":
			if len(c.Args) == 1 {
				return "(" + t.expr(f.X) + " + " + t.expr(c.Args[0]) + ")"
			}
		case "Before":
			if len(c.Args) == 1 {
				return "(" + t.expr(f.X) + " < " + t.expr(c.Args[0]) + ")"
			}
		case "After":
			if len(c.Args) == 1 {
				return "(" + t.expr(f.X) + " > " + t.expr(c.Args[0]) + ")"
			}
		case "String":
			if inner, ok := f.X.(*ast.SelectorExpr); ok && inner.Sel.Name == "URL" && len(c.Args) == 0 {
				if tv, ok := t.info.Types[inner.X]; ok && tv.Type != nil && strings.HasSuffix(tv.Type.String(), "http.Request") {
					t.addExtern("requestURL", "HTTPRequest → String")
					return "(env.requestURL " + t.derefd(inner.X) + ")"
				}
			}
			if len(c.Args) == 0 {
				return t.expr(f.X) + ".str"
			}
		}
		// the IdP's session provider takes the request value, whose type refers back to the IdP: as a record field that would be
		// a cyclic structure; it is an `Env` function of the IdP instead
		if f.Sel.Name == "GetSession" && strings.HasSuffix(t.src(f.X), ".SessionProvider") && len(c.Args) == 3 {
			if inner, ok := f.X.(*ast.SelectorExpr); ok {
				own := false
				if id, isID := inner.X.(*ast.Ident); isID && t.cur.ownRecv != "" && id.Name == t.cur.ownRecv {
					own = true
				}
				if t.isRecv(inner.X) || own {
					t.addExtern("sessionProviderGetSession", "IdentityProvider → ResponseWriter → (Option HTTPRequest) → (Option IdpAuthnRequest) → Outcome (Option Session)")
					t.touchStruct("Session")
					return "(← env.sessionProviderGetSession " + t.derefd(inner.X) + " " + t.args(c.Args) + ")"
				}
			}
		}
		// method of a translated receiver type, or a function-valued field / interface method
		if obj, ok := t.info.Uses[f.Sel]; ok {
			if fn, ok := obj.(*types.Func); ok {
				sig := fn.Type().(*types.Signature)
				if sig.Recv() != nil {
					rn, _ := namedOf(sig.Recv().Type())
					if _, isIface := t.ifaces[rn]; isIface {
						if t.usedM[rn] == nil {
							t.usedM[rn] = map[string]bool{}
						}
						t.usedM[rn][f.Sel.Name] = true
						t.touchStruct(rn)
						return "(← " + t.expr(f.X) + "." + f.Sel.Name + " " + t.args(c.Args) + ")"
					}
					if t.externs[f.Sel.Name] {
						return t.externCall(f.Sel.Name, rn, f.X, c)
					}
					if sp, ok := t.specs[f.Sel.Name]; ok && sp.recv == rn {
						t.need(f.Sel.Name)
						if sp.mutRecv {
							if !t.isRecv(f.X) || !t.cur.mutRecv {
								t.failf("%s: call of %s, which modifies its receiver, on something else than the caller's receiver", t.cur.name, f.Sel.Name)
								return "default"
							}
							t.tmpN++
							tmp := fmt.Sprintf("call%d'", t.tmpN)
							t.pre = append(t.pre, "let "+tmp+" := (← "+f.Sel.Name+" env "+t.cur.recv+" "+t.args(c.Args)+")", t.cur.recv+" := "+tmp+".1")
							return tmp + ".2"
						}
						recv := t.expr(f.X)
						if isPointer(t.info.Types[f.X].Type) && !t.isRecv(f.X) {
							recv = t.derefd(f.X)
						}
						return "(← " + f.Sel.Name + " env " + recv + " " + t.args(c.Args) + ")"
					}
				}
			}
			if v, ok := obj.(*types.Var); ok && v.IsField() {
				// function-valued field: nil call panics
				return "(← (← deref " + t.expr(f) + ") " + t.args(c.Args) + ")"
			}
		}
	}
	t.failf("%s: unsupported call %s", t.cur.name, t.src(c))
	return "default"
}

// externCall: a call of a function that stays outside the translation (XML, signatures, decryption): it becomes a field
// of `Env`, a function of its arguments. `unmarshalElement(el, &v)` fills `v`: the field returns the value and the error.
func (t *trans) externCall(name, recvType string, recv ast.Expr, c *ast.CallExpr) string {
	fd := t.funcs[name]
	if recvType != "" {
		fd = t.funcs[recvType+"."+name]
	}
	if fd == nil {
		t.failf("%s: external %s has no declaration", t.cur.name, name)
		return "default"
	}
	if name == "unmarshalElement" && len(c.Args) == 2 {
		u, ok := c.Args[1].(*ast.UnaryExpr)
		if !ok || u.Op != token.AND {
			t.failf("%s: unmarshalElement into something else than &variable", t.cur.name)
			return "default"
		}
		id, ok := u.X.(*ast.Ident)
		if !ok {
			t.failf("%s: unmarshalElement into something else than &variable", t.cur.name)
			return "default"
		}
		tn, _ := namedOf(t.info.Types[u.X].Type)
		field := "unmarshalElement_" + tn
		t.addExtern(field, "(Option Element) → Outcome ("+t.leanType(ast.NewIdent(tn))+" × GoError)")
		t.tmpN++
		tmp := fmt.Sprintf("call%d'", t.tmpN)
		t.pre = append(t.pre, "let "+tmp+" := (← env."+field+" "+t.expr(c.Args[0])+")", t.varName(id.Name)+" := "+tmp+".1")
		t.cur.mutable[id.Name] = true
		return tmp + ".2"
	}
	var parts []string
	args := ""
	if recvType != "" {
		parts = append(parts, t.leanType(ast.NewIdent(recvType)))
		r := t.expr(recv)
		if isPointer(t.info.Types[recv].Type) && !t.isRecv(recv) {
			r = t.derefd(recv)
		}
		args = r + " "
	}
	for _, f := range fd.Type.Params.List {
		n := len(f.Names)
		if n == 0 {
			n = 1
		}
		for i := 0; i < n; i++ {
			parts = append(parts, t.leanType(f.Type))
		}
	}
	parts = append(parts, "Outcome "+t.resultType(fd.Type.Results))
	t.addExtern(name, strings.Join(parts, " → "))
	return "(← env." + name + " " + args + t.args(c.Args) + ")"
}

func (t *trans) addExtern(field, sig string) {
	if _, ok := t.extSigs[field]; !ok {
		t.extSigs[field] = sig
		t.extOrder = append(t.extOrder, field)
	}
}

func leanIdent(n string) string {
	switch n {
	case "at", "from", "end", "then", "do", "fun", "in", "let", "have", "show", "by", "open", "section", "namespace", "instance", "where", "with", "match":
		return n + "'"
	}
	return n
}

func (t *trans) envVar(name string) {
	if _, ok := t.envVars[name]; ok {
		return
	}
	// find the declaration
	for _, fn := range sortedFileNames(t.p) {
		for _, d := range t.p.files[fn].Decls {
			g, ok := d.(*ast.GenDecl)
			if !ok || g.Tok != token.VAR {
				continue
			}
			for _, s := range g.Specs {
				vs := s.(*ast.ValueSpec)
				for i, n := range vs.Names {
					if n.Name != name {
						continue
					}
					if vs.Type != nil {
						t.envVars[name] = t.leanType(vs.Type)
						return
					}
					if i < len(vs.Values) {
						if tv, ok := t.info.Types[vs.Values[i]]; ok && tv.Type != nil {
							switch b := tv.Type.Underlying().(type) {
							case *types.Basic:
								if b.Info()&types.IsString != 0 {
									t.envVars[name] = "String"
									return
								}
								if b.Info()&types.IsInteger != 0 {
									t.envVars[name] = "Int"
									return
								}
								if b.Info()&types.IsBoolean != 0 {
									t.envVars[name] = "Bool"
									return
								}
							}
						}
						if strings.HasPrefix(t.src(vs.Values[i]), "errors.New(") {
							t.envVars[name] = "GoError"
							return
						}
						// time.Duration expressions (`time.Second * 90`) have an external type
						if strings.Contains(t.src(vs.Values[i]), "time.") {
							t.envVars[name] = "Int"
							return
						}
					}
				}
			}
		}
	}
	t.failf("package variable %s: cannot determine its type", name)
	t.envVars[name] = "Unit"
}

// ---------------------------------------------------------------- statements

type out struct {
	b strings.Builder
}

func (o *out) line(ind int, s string) {
	o.b.WriteString(strings.Repeat("  ", ind))
	o.b.WriteString(s)
	o.b.WriteString("\n")
}

func (t *trans) resolve(name string) (string, int) {
	if t.cur == nil {
		return "", -1
	}
	for i := len(t.cur.scopes) - 1; i >= 0; i-- {
		if n, ok := t.cur.scopes[i][name]; ok {
			return n, i
		}
	}
	return "", -1
}

func (t *trans) varName(name string) string {
	if n, d := t.resolve(name); d >= 0 {
		return n
	}
	return leanIdent(name)
}

func (t *trans) retExpr(results []ast.Expr) string {
	if t.cur.trace && !t.cur.traceResult {
		if t.cur.mutRecv {
			return "(" + t.cur.recv + ", trace')" // a traced range with a state variable: (state, trace)
		}
		return "trace'"
	}
	if t.cur.trace {
		// a handler that also returns a value: (value, trace)
		v := "default"
		if len(results) == 1 {
			v = t.expr(results[0])
		} else if len(results) > 1 {
			var parts []string
			for _, r := range results {
				parts = append(parts, t.expr(r))
			}
			v = "(" + strings.Join(parts, ", ") + ")"
		}
		if t.cur.mutRecv {
			return "(" + t.cur.recv + ", (" + v + ", trace'))"
		}
		return "(" + v + ", trace')"
	}
	var v string
	switch len(results) {
	case 0:
		v = "()"
	case 1:
		v = t.expr(results[0])
		if t.cur.yieldZero != "" {
			// prefix translation of a function with a single (error) result: the value under construction is not returned there
			v = "(" + t.cur.yieldZero + ", " + v + ")"
		}
	default:
		var s []string
		for i, r := range results {
			if i == 0 && t.cur.yieldZero != "" {
				s = append(s, t.cur.yieldZero)
				continue
			}
			// a nil slice is the empty list
			if isNil(r) && t.cur.resultIsSlice != nil && i < len(t.cur.resultIsSlice) && t.cur.resultIsSlice[i] {
				s = append(s, "[]")
				continue
			}
			// a concrete value returned where the result is an interface that may be nil: some value of that interface (what the
			// value is beyond being non-nil is not modelled — the interface has no method the translated code calls)
			if i < len(t.cur.resultIface) && t.cur.resultIface[i] != "" && !isNil(r) {
				if tv, ok := t.info.Types[r]; ok && tv.Type != nil {
					if _, isI := tv.Type.Underlying().(*types.Interface); !isI {
						s = append(s, "(some (default : "+t.cur.resultIface[i]+"))")
						continue
					}
				}
			}
			s = append(s, t.expr(r))
		}
		v = "(" + strings.Join(s, ", ") + ")"
	}
	if t.cur.mutRecv {
		return "(" + t.cur.recv + ", " + v + ")"
	}
	return v
}

func (t *trans) block(o *out, ind int, b *ast.BlockStmt) {
	if len(b.List) == 0 {
		o.line(ind, "pure ()")
		return
	}
	t.cur.scopes = append(t.cur.scopes, map[string]string{})
	defer func() { t.cur.scopes = t.cur.scopes[:len(t.cur.scopes)-1] }()
	for _, s := range b.List {
		t.stmt(o, ind, s)
	}
}

func (t *trans) declare(o *out, ind int, name string, val string) {
	if name == "_" {
		o.line(ind, "let _ := "+val)
		return
	}
	cur := len(t.cur.scopes) - 1
	if cur < 0 {
		t.cur.scopes = append(t.cur.scopes, map[string]string{})
		cur = 0
	}
	ln, depth := t.resolve(name)
	switch {
	case depth == cur && t.cur.mutable[name]:
		// Go: `:=` with this variable already declared in the same scope assigns to it
		o.line(ind, ln+" := "+val)
		return
	case depth >= 0 && t.cur.mutable[name]:
		// a new variable of the same name in an inner scope (Lean does not let a `let mut` be shadowed)
		t.cur.fresh++
		ln = fmt.Sprintf("%s_%d", leanIdent(name), t.cur.fresh)
	default:
		ln = leanIdent(name)
	}
	t.cur.scopes[cur][name] = ln
	kw := "let "
	if t.cur.mutable[name] {
		kw = "let mut "
	}
	o.line(ind, kw+ln+" := "+val)
}

// stmt renders one statement; calls that modify the receiver are hoisted into statements of their own,
// written just before the statement whose expression contains them.
func (t *trans) stmt(o *out, ind int, s ast.Stmt) {
	savedPre := t.pre
	t.pre = nil
	var tmp out
	t.stmt1(&tmp, ind, s)
	for _, l := range t.pre {
		o.line(ind, l)
	}
	t.pre = savedPre
	o.b.WriteString(tmp.b.String())
}

func (t *trans) stmt1(o *out, ind int, s ast.Stmt) {
	switch x := s.(type) {
	case *ast.ReturnStmt:
		o.line(ind, "return "+t.retExpr(x.Results))
	case *ast.ExprStmt:
		if c, ok := x.X.(*ast.CallExpr); ok {
			if id, ok := c.Fun.(*ast.Ident); ok && id.Name == "panic" {
				o.line(ind, "Outcome.panic "+t.expr(c.Args[0]))
				return
			}
			// mode.CryptBlocks(dst, src): the Env function gives what is written to dst (it may panic: crypto/cipher's preconditions)
			if sel, ok := c.Fun.(*ast.SelectorExpr); ok && sel.Sel.Name == "CryptBlocks" && len(c.Args) == 2 {
				if dst, ok := c.Args[0].(*ast.Ident); ok {
					t.addExtern("cbcDecrypt", "(List UInt8) → (List UInt8) → Outcome (List UInt8)")
					o.line(ind, t.varName(dst.Name)+" := (← env.cbcDecrypt "+t.expr(sel.X)+" "+t.expr(c.Args[1])+")")
					return
				}
			}
			// the registry lock: concurrency is outside the translation (C20 has its own machinery)
			if src := t.src(c.Fun); strings.HasSuffix(src, "Mu.Lock") || strings.HasSuffix(src, "Mu.Unlock") || strings.HasSuffix(src, "Mu.RLock") || strings.HasSuffix(src, "Mu.RUnlock") {
				return
			}
			// delete(recv.m, k) on a map field of the modified receiver
			if id, ok := c.Fun.(*ast.Ident); ok && id.Name == "delete" && len(c.Args) == 2 {
				if sel, ok := c.Args[0].(*ast.SelectorExpr); ok && t.isRecv(sel.X) && t.cur.mutRecv {
					tv := t.info.Types[sel.X]
					sname, _ := namedOf(tv.Type)
					t.useField(sname, sel.Sel.Name)
					o.line(ind, t.cur.recv+" := { "+t.cur.recv+" with "+sel.Sel.Name+" := mapDelete "+t.cur.recv+"."+sel.Sel.Name+" "+t.expr(c.Args[1])+" }")
					return
				}
			}
			// log lines are not part of the behaviour that is modelled
			if strings.HasSuffix(t.src(c.Fun), ".logger.Printf") || strings.HasSuffix(t.src(c.Fun), ".Logger.Printf") {
				return
			}
		}
		o.line(ind, "let _ := "+t.expr(x.X))
	case *ast.AssignStmt:
		t.assign(o, ind, x)
	case *ast.DeclStmt:
		g := x.Decl.(*ast.GenDecl)
		for _, sp := range g.Specs {
			vs, ok := sp.(*ast.ValueSpec)
			if !ok {
				t.failf("%s: unsupported declaration", t.cur.name)
				continue
			}
			for i, n := range vs.Names {
				if i < len(vs.Values) {
					t.declare(o, ind, n.Name, t.expr(vs.Values[i]))
				} else {
					kw := "let "
					if t.cur.mutable[n.Name] {
						kw = "let mut "
					}
					ln := leanIdent(n.Name)
					if _, d := t.resolve(n.Name); d >= 0 && t.cur.mutable[n.Name] {
						t.cur.fresh++
						ln = fmt.Sprintf("%s_%d", ln, t.cur.fresh)
					}
					if len(t.cur.scopes) > 0 {
						t.cur.scopes[len(t.cur.scopes)-1][n.Name] = ln
					}
					o.line(ind, kw+ln+" : "+t.leanType(vs.Type)+" := "+t.zeroValue(vs.Type))
				}
			}
		}
	case *ast.IfStmt:
		t.ifStmt(o, ind, x)
	case *ast.RangeStmt:
		if x.Key != nil {
			if id, ok := x.Key.(*ast.Ident); !ok || id.Name != "_" {
				t.failf("%s: range with an index variable", t.cur.name)
			}
		}
		v := "_"
		if x.Value != nil {
			v = leanIdent(x.Value.(*ast.Ident).Name)
		}
		o.line(ind, "for "+v+" in "+t.expr(x.X)+" do")
		t.block(o, ind+1, x.Body)
	case *ast.BranchStmt:
		switch x.Tok {
		case token.BREAK:
			o.line(ind, "break")
		case token.CONTINUE:
			o.line(ind, "continue")
		default:
			t.failf("%s: unsupported branch statement", t.cur.name)
		}
	case *ast.SwitchStmt:
		t.switchStmt(o, ind, x)
	case *ast.BlockStmt:
		t.block(o, ind, x)
	case *ast.DeferStmt:
		// only the release of the registry lock is deferred in the translated code (concurrency is outside the translation)
		if src := t.src(x.Call.Fun); strings.HasSuffix(src, "Mu.Unlock") || strings.HasSuffix(src, "Mu.RUnlock") {
			return
		}
		t.failf("%s: unsupported defer %s", t.cur.name, t.src(x.Call))
	default:
		t.failf("%s: unsupported statement %T", t.cur.name, s)
	}
}

func (t *trans) assign(o *out, ind int, x *ast.AssignStmt) {
	if len(x.Lhs) == 1 && len(x.Rhs) == 1 {
		switch l := x.Lhs[0].(type) {
		case *ast.Ident:
			if x.Tok == token.DEFINE {
				t.declare(o, ind, l.Name, t.expr(x.Rhs[0]))
			} else if x.Tok == token.ASSIGN {
				o.line(ind, t.varName(l.Name)+" := "+t.expr(x.Rhs[0]))
			} else {
				t.failf("%s: unsupported assignment operator", t.cur.name)
			}
			return
		case *ast.IndexExpr:
			// recv.m[k] = v on a map field of the modified receiver
			if sel, ok := l.X.(*ast.SelectorExpr); ok && t.isRecv(sel.X) && t.cur.mutRecv && x.Tok == token.ASSIGN {
				if _, isMap := t.info.Types[l.X].Type.Underlying().(*types.Map); isMap {
					tv := t.info.Types[sel.X]
					sname, _ := namedOf(tv.Type)
					t.useField(sname, sel.Sel.Name)
					o.line(ind, t.cur.recv+" := { "+t.cur.recv+" with "+sel.Sel.Name+" := mapSet "+t.cur.recv+"."+sel.Sel.Name+" "+t.expr(l.Index)+" "+t.expr(x.Rhs[0])+" }")
					return
				}
			}
			// xs[i] = v on a local slice that nothing else aliases (checked: the variable comes from `make` in this function)
			if id, ok := l.X.(*ast.Ident); ok && x.Tok == token.ASSIGN && t.cur.freshSl[id.Name] {
				o.line(ind, t.varName(id.Name)+" := (← setIndex "+t.varName(id.Name)+" "+t.expr(l.Index)+" "+t.expr(x.Rhs[0])+")")
				return
			}
		case *ast.SelectorExpr:
			// errValue.Field = value: the error stays the same non-nil error
			if tv, ok := t.info.Types[l.X]; ok && x.Tok == token.ASSIGN {
				if n, _ := namedOf(tv.Type); n != "" && isErrorTypeName(n) {
					o.line(ind, "let _ := "+t.expr(x.Rhs[0]))
					return
				}
			}
			// localStruct.Field = value (a struct value held in a local or a parameter)
			if id, ok := l.X.(*ast.Ident); ok && !t.isRecv(l.X) && x.Tok == token.ASSIGN {
				if tv, ok := t.info.Types[l.X]; ok && !isPointer(tv.Type) {
					if sname, _ := namedOf(tv.Type); sname != "" {
						if _, own := t.structs[sname]; own {
							lhs := t.expr(l) // registers the fields; gives the access path
							path := strings.Split(strings.TrimPrefix(lhs, t.varName(id.Name)+"."), ".")
							v := t.expr(x.Rhs[0])
							cur := t.varName(id.Name)
							upd := ""
							if len(path) == 1 {
								upd = "{ " + cur + " with " + path[0] + " := " + v + " }"
							} else if len(path) == 2 {
								upd = "{ " + cur + " with " + path[0] + " := { " + cur + "." + path[0] + " with " + path[1] + " := " + v + " } }"
							}
							if upd != "" {
								o.line(ind, cur+" := "+upd)
								return
							}
						}
					}
				}
			}
			// receiver.Field = value
			if t.isRecv(l.X) && t.cur.mutRecv && x.Tok == token.ASSIGN {
				tv := t.info.Types[l.X]
				sname, _ := namedOf(tv.Type)
				t.useField(sname, l.Sel.Name)
				o.line(ind, t.cur.recv+" := { "+t.cur.recv+" with "+l.Sel.Name+" := "+t.expr(x.Rhs[0])+" }")
				return
			}
		}
	}
	if len(x.Rhs) == 1 && len(x.Lhs) == 2 && x.Tok == token.DEFINE {
		// v, ok := m[k] on a map with string keys
		if ix, ok := x.Rhs[0].(*ast.IndexExpr); ok {
			if mt, isMap := t.info.Types[ix.X].Type.Underlying().(*types.Map); isMap {
				v, okID := x.Lhs[0].(*ast.Ident), x.Lhs[1].(*ast.Ident)
				if v != nil && okID != nil {
					t.tmpN++
					tmp := fmt.Sprintf("lookup%d'", t.tmpN)
					o.line(ind, "let "+tmp+" := mapGet "+t.expr(ix.X)+" "+t.expr(ix.Index))
					zero := "default"
					if _, isPtr := mt.Elem().(*types.Pointer); isPtr {
						zero = "none"
					}
					t.declare(o, ind, v.Name, "("+tmp+".getD "+zero+")")
					t.declare(o, ind, okID.Name, tmp+".isSome")
					return
				}
			}
		}
	}
	if len(x.Rhs) == 1 && len(x.Lhs) > 1 && (x.Tok == token.DEFINE || x.Tok == token.ASSIGN) {
		// v, err := call(...)   /   v, err = call(...)
		var ns []string
		anyMut := x.Tok == token.ASSIGN
		fieldOf := map[int]string{} // position -> field of the state variable / modified receiver assigned there
		localField := map[int][2]string{} // position -> (local struct variable, field) assigned there
		for i, l := range x.Lhs {
			if sel, ok := l.(*ast.SelectorExpr); ok && t.isRecv(sel.X) && t.cur.mutRecv && x.Tok == token.ASSIGN {
				tv := t.info.Types[sel.X]
				sname, _ := namedOf(tv.Type)
				t.useField(sname, sel.Sel.Name)
				fieldOf[i] = sel.Sel.Name
				ns = append(ns, "_")
				continue
			}
			if sel, ok := l.(*ast.SelectorExpr); ok && x.Tok == token.ASSIGN {
				if lid, ok := sel.X.(*ast.Ident); ok && !t.isRecv(sel.X) {
					if tv, ok := t.info.Types[sel.X]; ok && !isPointer(tv.Type) {
						if sname, _ := namedOf(tv.Type); sname != "" {
							if _, own := t.structs[sname]; own {
								t.useField(sname, sel.Sel.Name)
								localField[i] = [2]string{lid.Name, sel.Sel.Name}
								ns = append(ns, "_")
								anyMut = true
								continue
							}
						}
					}
				}
			}
			id, ok := l.(*ast.Ident)
			if !ok {
				t.failf("%s: unsupported assignment %s", t.cur.name, t.src(x))
				return
			}
			if t.cur.mutable[id.Name] {
				anyMut = true
			}
			ns = append(ns, id.Name)
		}
		if !anyMut {
			for i := range ns {
				ns[i] = leanIdent(ns[i])
			}
			o.line(ind, "let ("+strings.Join(ns, ", ")+") := "+t.expr(x.Rhs[0]))
			return
		}
		t.tmpN++
		tmp := fmt.Sprintf("multi%d'", t.tmpN)
		o.line(ind, "let "+tmp+" := "+t.expr(x.Rhs[0]))
		for i, n := range ns {
			proj := tmp
			// right-nested pairs: (a, b, c) = (a, (b, c))
			for k := 0; k < i; k++ {
				proj += ".2"
			}
			if i < len(ns)-1 {
				proj += ".1"
			}
			if f, ok := fieldOf[i]; ok {
				o.line(ind, t.cur.recv+" := { "+t.cur.recv+" with "+f+" := "+proj+" }")
				continue
			}
			if lf, ok := localField[i]; ok {
				o.line(ind, t.varName(lf[0])+" := { "+t.varName(lf[0])+" with "+lf[1]+" := "+proj+" }")
				continue
			}
			if n == "_" {
				continue
			}
			if x.Tok == token.ASSIGN {
				o.line(ind, t.varName(n)+" := "+proj)
			} else {
				t.declare(o, ind, n, proj)
			}
		}
		return
	}
	if len(x.Lhs) == len(x.Rhs) && x.Tok == token.DEFINE {
		// a, b := a, b   (parallel definition; the right-hand sides are evaluated first)
		var tmp []string
		for i := range x.Rhs {
			n := fmt.Sprintf("tmp%d'", i)
			tmp = append(tmp, n)
			o.line(ind, "let "+n+" := "+t.expr(x.Rhs[i]))
		}
		for i, l := range x.Lhs {
			id, ok := l.(*ast.Ident)
			if !ok {
				t.failf("%s: unsupported assignment %s", t.cur.name, t.src(x))
				return
			}
			t.declare(o, ind, id.Name, tmp[i])
		}
		return
	}
	t.failf("%s: unsupported assignment %s", t.cur.name, t.src(x))
}

func (t *trans) ifStmt(o *out, ind int, x *ast.IfStmt) {
	if x.Init != nil {
		var io out
		t.stmt(&io, ind, x.Init)
		// the initialiser runs before the condition: it joins the hoisted statements
		for _, l := range strings.Split(strings.TrimRight(io.b.String(), "\n"), "\n") {
			t.pre = append(t.pre, strings.TrimLeft(l, " "))
		}
	}
	o.line(ind, "if "+t.expr(x.Cond)+" then")
	t.block(o, ind+1, x.Body)
	if x.Else != nil {
		o.line(ind, "else")
		switch e := x.Else.(type) {
		case *ast.BlockStmt:
			t.block(o, ind+1, e)
		case *ast.IfStmt:
			t.stmt(o, ind+1, e)
		}
	}
}

func (t *trans) switchStmt(o *out, ind int, x *ast.SwitchStmt) {
	if x.Init == nil && x.Tag == nil {
		// a tag-less switch: the first case whose condition holds (no fall-through)
		first := true
		var deflt *ast.CaseClause
		for _, c := range x.Body.List {
			cc := c.(*ast.CaseClause)
			for _, s := range cc.Body {
				if b, ok := s.(*ast.BranchStmt); ok && b.Tok == token.FALLTHROUGH {
					t.failf("%s: fallthrough", t.cur.name)
				}
			}
			if cc.List == nil {
				deflt = cc
				continue
			}
			var conds []string
			for _, v := range cc.List {
				if t.hasEffect(v) {
					t.failf("%s: switch case with effects", t.cur.name)
				}
				conds = append(conds, t.expr(v))
			}
			if !first {
				o.line(ind, "else")
				ind++
			}
			first = false
			o.line(ind, "if "+strings.Join(conds, " || ")+" then")
			if len(cc.Body) == 0 {
				o.line(ind+1, "pure ()")
			} else {
				t.block(o, ind+1, &ast.BlockStmt{List: cc.Body})
			}
		}
		if deflt != nil && len(deflt.Body) > 0 {
			if first {
				t.block(o, ind, &ast.BlockStmt{List: deflt.Body})
			} else {
				o.line(ind, "else")
				t.block(o, ind+1, &ast.BlockStmt{List: deflt.Body})
			}
		}
		return
	}
	if x.Init != nil || x.Tag == nil {
		t.failf("%s: unsupported switch form", t.cur.name)
		return
	}
	if t.hasEffect(x.Tag) {
		t.failf("%s: switch tag with effects", t.cur.name)
	}
	tag := t.expr(x.Tag)
	first := true
	var deflt *ast.CaseClause
	for _, c := range x.Body.List {
		cc := c.(*ast.CaseClause)
		for _, s := range cc.Body {
			if b, ok := s.(*ast.BranchStmt); ok && b.Tok == token.FALLTHROUGH {
				t.failf("%s: fallthrough", t.cur.name)
			}
		}
		if cc.List == nil {
			deflt = cc
			continue
		}
		var conds []string
		for _, v := range cc.List {
			conds = append(conds, "("+tag+" == "+t.expr(v)+")")
		}
		kw := "if "
		if !first {
			o.line(ind, "else")
			ind++
		}
		first = false
		o.line(ind, kw+strings.Join(conds, " || ")+" then")
		if len(cc.Body) == 0 {
			o.line(ind+1, "pure ()")
		} else {
			t.block(o, ind+1, &ast.BlockStmt{List: cc.Body})
		}
	}
	if deflt != nil {
		if first {
			t.block(o, ind, &ast.BlockStmt{List: deflt.Body})
		} else {
			o.line(ind, "else")
			t.block(o, ind+1, &ast.BlockStmt{List: deflt.Body})
		}
	}
}

// ---------------------------------------------------------------- functions

func (t *trans) need(name string) {
	if t.done[name] {
		return
	}
	t.done[name] = true
	saved := t.cur
	t.function(name)
	t.cur = saved
}

// freshSlices: variables defined by `x := make([]T, n)` whose every other use is `len(x)`, `x[i]` (read or write) or the spread
// operand of `append(y, x...)` (which copies) — so no second name ever refers to the same backing array and `x[i] = v` can be
// translated as a value update of x.
func freshSlices(body *ast.BlockStmt) map[string]bool {
	m := map[string]bool{}
	defs := map[*ast.Ident]bool{}
	ast.Inspect(body, func(n ast.Node) bool {
		if a, ok := n.(*ast.AssignStmt); ok && a.Tok == token.DEFINE && len(a.Lhs) == 1 && len(a.Rhs) == 1 {
			if id, ok := a.Lhs[0].(*ast.Ident); ok {
				if c, ok := a.Rhs[0].(*ast.CallExpr); ok {
					if f, ok := c.Fun.(*ast.Ident); ok && f.Name == "make" {
						m[id.Name] = true
						defs[id] = true
					}
				}
			}
		}
		return true
	})
	ok := map[*ast.Ident]bool{}
	ast.Inspect(body, func(n ast.Node) bool {
		switch x := n.(type) {
		case *ast.IndexExpr:
			if id, isID := x.X.(*ast.Ident); isID {
				ok[id] = true
			}
		case *ast.CallExpr:
			if f, isID := x.Fun.(*ast.Ident); isID {
				if f.Name == "len" && len(x.Args) == 1 {
					if id, isID := x.Args[0].(*ast.Ident); isID {
						ok[id] = true
					}
				}
				if f.Name == "append" && len(x.Args) == 2 && x.Ellipsis != token.NoPos {
					if id, isID := x.Args[1].(*ast.Ident); isID {
						ok[id] = true
					}
				}
			}
		}
		return true
	})
	ast.Inspect(body, func(n ast.Node) bool {
		if id, isID := n.(*ast.Ident); isID && m[id.Name] && !defs[id] && !ok[id] {
			delete(m, id.Name)
		}
		return true
	})
	return m
}

func mutatedVars(body *ast.BlockStmt) map[string]bool {
	m := map[string]bool{}
	ast.Inspect(body, func(n ast.Node) bool {
		if a, ok := n.(*ast.AssignStmt); ok && a.Tok != token.DEFINE {
			for _, l := range a.Lhs {
				if id, ok := l.(*ast.Ident); ok {
					m[id.Name] = true
				}
				// xs[i] = v writes the slice variable
				if ix, ok := l.(*ast.IndexExpr); ok {
					if id, ok := ix.X.(*ast.Ident); ok {
						m[id.Name] = true
					}
				}
			}
		}
		// `mode.CryptBlocks(dst, src)` writes dst
		if c, ok := n.(*ast.CallExpr); ok {
			if sel, ok := c.Fun.(*ast.SelectorExpr); ok && sel.Sel.Name == "CryptBlocks" && len(c.Args) == 2 {
				if id, ok := c.Args[0].(*ast.Ident); ok {
					m[id.Name] = true
				}
			}
		}
		// `x.Store.Get(key, p)` writes through p
		if c, ok := n.(*ast.CallExpr); ok {
			if sel, ok := c.Fun.(*ast.SelectorExpr); ok && sel.Sel.Name == "Get" && len(c.Args) == 2 {
				if inner, ok := sel.X.(*ast.SelectorExpr); ok && inner.Sel.Name == "Store" {
					if id, ok := c.Args[1].(*ast.Ident); ok {
						m[id.Name] = true
					}
				}
			}
		}
		// a variable whose address is handed to a call may be written by it (`unmarshalElement(el, &v)`)
		if c, ok := n.(*ast.CallExpr); ok {
			for _, a := range c.Args {
				if u, ok := a.(*ast.UnaryExpr); ok && u.Op == token.AND {
					if id, ok := u.X.(*ast.Ident); ok {
						m[id.Name] = true
					}
				}
			}
		}
		return true
	})
	return m
}

func (t *trans) function(name string) {
	sp := t.specs[name]
	fd := t.funcs[name]
	if fd == nil {
		t.failf("function %s not found", name)
		return
	}
	ctx := &funcCtx{name: name, mutable: mutatedVars(fd.Body), freshSl: freshSlices(fd.Body), mutRecv: sp.mutRecv}
	if fd.Type.Results != nil {
		for _, f := range fd.Type.Results.List {
			_, isSl := f.Type.(*ast.ArrayType)
			n := len(f.Names)
			if n == 0 {
				n = 1
			}
			ifn := ""
			if id, ok := f.Type.(*ast.Ident); ok && t.nilable[id.Name] {
				ifn = id.Name
			}
			for i := 0; i < n; i++ {
				ctx.resultIsSlice = append(ctx.resultIsSlice, isSl)
				ctx.resultIface = append(ctx.resultIface, ifn)
			}
		}
	}
	// x.F = v on a struct *value* held in a local or parameter writes x (pointers and error structs are handled elsewhere)
	ast.Inspect(fd.Body, func(n ast.Node) bool {
		if a, ok := n.(*ast.AssignStmt); ok && a.Tok == token.ASSIGN {
			for _, l := range a.Lhs {
				if se, ok := l.(*ast.SelectorExpr); ok {
					if id, ok := se.X.(*ast.Ident); ok {
						if tv, ok := t.info.Types[se.X]; ok && tv.Type != nil && !isPointer(tv.Type) {
							if sn, _ := namedOf(tv.Type); sn != "" && !isErrorTypeName(sn) {
								if _, own := t.structs[sn]; own {
									ctx.mutable[id.Name] = true
								}
							}
						}
					}
				}
			}
		}
		return true
	})
	if sp.state != "" {
		ctx.mutRecv = true
	}
	if sp.trace {
		ctx.trace = true
		ctx.writers = map[string]bool{}
		for _, f := range fd.Type.Params.List {
			if t.src(f.Type) == "http.ResponseWriter" {
				for _, n := range f.Names {
					ctx.writers[n.Name] = true
				}
			}
		}
	}
	t.cur = ctx
	var params []string
	params = append(params, "(env : Env)")
	if fd.Recv != nil && len(fd.Recv.List) == 1 {
		r := fd.Recv.List[0]
		rt := r.Type
		if st, ok := rt.(*ast.StarExpr); ok {
			rt = st.X
		}
		if len(r.Names) == 1 && sp.state == "" {
			ctx.recv = r.Names[0].Name
			params = append(params, "("+ctx.recv+" : "+t.leanType(rt)+")")
		} else if len(r.Names) == 1 {
			// the method's own receiver is an ordinary parameter here (a pointer like any other)
			if _, isPtr := r.Type.(*ast.StarExpr); isPtr {
				params = append(params, "("+leanIdent(r.Names[0].Name)+" : (Option "+t.leanType(rt)+"))")
			} else {
				params = append(params, "("+leanIdent(r.Names[0].Name)+" : "+t.leanType(rt)+")")
			}
			ctx.ownRecv = r.Names[0].Name
		}
	}
	if sp.state != "" {
		ctx.recv = sp.state
	}
	body := fd.Body.List
	bound := map[string]bool{}
	paramFails := map[string][2]int{} // failures recorded while typing a parameter (dropped again if the parameter is)
	for _, f := range fd.Type.Params.List {
		for _, n := range f.Names {
			f0 := len(t.fails)
			params = append(params, "("+leanIdent(n.Name)+" : "+t.leanType(f.Type)+")")
			paramFails[leanIdent(n.Name)] = [2]int{f0, len(t.fails)}
			bound[n.Name] = true
		}
	}
	var anchorParams []string
	if sp.inside != "" {
		var in *ast.IfStmt
		for _, st := range body {
			if is, ok := st.(*ast.IfStmt); ok && strings.HasPrefix(t.src(st), sp.inside) {
				in = is
				break
			}
		}
		if in == nil {
			t.failf("%s: enclosing statement %q not found", name, sp.inside)
			return
		}
		body = in.Body.List
	}
	if sp.anchor != "" {
		start := -1
		for i, s := range body {
			if strings.HasPrefix(t.src(s), sp.anchor) {
				start = i
				break
			}
		}
		if start < 0 {
			t.failf("%s: anchor statement %q not found", name, sp.anchor)
			return
		}
		// locals defined before the anchor and used after it become parameters
		defined := map[string]ast.Expr{}
		var orderNames []string
		for _, s := range body[:start] {
			if a, ok := s.(*ast.AssignStmt); ok && a.Tok == token.DEFINE {
				for _, l := range a.Lhs {
					if id, ok := l.(*ast.Ident); ok && id.Name != "_" {
						if t.info.Defs[id] == nil {
							continue // (re-used by this `:=`, not declared by it)
						}
						if _, seen := defined[id.Name]; !seen {
							orderNames = append(orderNames, id.Name)
						}
						defined[id.Name] = l
					}
				}
			}
		}
		used := map[string]bool{}
		for _, s := range body[start:] {
			ast.Inspect(s, func(n ast.Node) bool {
				if id, ok := n.(*ast.Ident); ok {
					used[id.Name] = true
				}
				return true
			})
		}
		onlyRoot := map[string]bool{}
		notOnlyRoot := map[string]bool{}
		for _, s := range body[start:] {
			ast.Inspect(s, func(n ast.Node) bool {
				if c, ok := n.(*ast.CallExpr); ok {
					if sel, ok := c.Fun.(*ast.SelectorExpr); ok && sel.Sel.Name == "Root" && len(c.Args) == 0 {
						if id, ok := sel.X.(*ast.Ident); ok {
							onlyRoot[id.Name] = true
							return false
						}
					}
				}
				if id, ok := n.(*ast.Ident); ok {
					notOnlyRoot[id.Name] = true
				}
				return true
			})
		}
		for _, n := range orderNames {
			if !used[n] || n == sp.state {
				continue
			}
			if onlyRoot[n] && !notOnlyRoot[n] {
				continue // the parsed document: only its root is looked at (env.docRoot)
			}
			obj := t.info.Defs[defined[n].(*ast.Ident)]
			if obj == nil {
				continue
			}
			// a local whose type is outside the subset is left out: if the translated range really reads it (and does not just
			// re-declare the name), the generated definition does not compile and the obligation fails — never a silent guess
			f0 := len(t.fails)
			ty := t.leanTypeOf(obj.Type(), name)
			if len(t.fails) > f0 {
				t.fails = t.fails[:f0]
				continue
			}
			params = append(params, "("+leanIdent(n)+" : "+ty+")")
			anchorParams = append(anchorParams, n)
		}
		body = body[start:]
	}
	stateType := ""
	if sp.state != "" {
		// the state variable: a local pointer to a struct, defined before the translated range
		ast.Inspect(fd.Body, func(n ast.Node) bool {
			if id, ok := n.(*ast.Ident); ok && id.Name == sp.state && stateType == "" {
				if obj := t.info.Defs[id]; obj != nil {
					if n, _ := namedOf(obj.Type()); n != "" {
						stateType = n
					}
				}
			}
			return true
		})
		if stateType == "" {
			t.failf("%s: state variable %s not found", name, sp.state)
			return
		}
		params = append(params, "("+sp.state+" : "+t.leanType(ast.NewIdent(stateType))+")")
	}
	res := ""
	if sp.until != "" && sp.yield == "" {
		end := -1
		for i, s := range body {
			if strings.HasPrefix(t.src(s), sp.until) {
				end = i
				break
			}
		}
		if end < 0 {
			t.failf("%s: statement %q (end of the translated part) not found", name, sp.until)
			return
		}
		body = body[:end]
		res = "Unit"
	} else if sp.until != "" {
		end := -1
		for i, s := range body {
			if strings.HasPrefix(t.src(s), sp.until) {
				end = i
				break
			}
		}
		if end < 0 {
			t.failf("%s: statement %q (end of the translated part) not found", name, sp.until)
			return
		}
		body = body[:end]
		ctx.yieldZero = map[string]string{"String": `""`, "Int": "(0 : Int)", "Bool": "false"}[sp.yieldTy]
		if strings.HasPrefix(sp.yieldTy, "(List ") {
			ctx.yieldZero = "[]"
		}
		res = "(" + sp.yieldTy + " × GoError)"
	} else {
		res = t.resultType(fd.Type.Results)
	}
	if sp.trace {
		if fd.Type.Results != nil && len(fd.Type.Results.List) > 0 {
			ctx.traceResult = true
			res = "(" + t.resultType(fd.Type.Results) + " × (List Event))"
		} else {
			res = "(List Event)"
		}
	}
	if sp.mutRecv {
		rt := fd.Recv.List[0].Type
		if st, ok := rt.(*ast.StarExpr); ok {
			rt = st.X
		}
		res = "(" + t.leanType(rt) + " × " + res + ")"
	} else if sp.state != "" {
		res = "(" + t.leanType(ast.NewIdent(stateType)) + " × " + res + ")"
	}
	var o out
	if sp.mutRecv || sp.state != "" {
		o.line(1, "let mut "+ctx.recv+" := "+ctx.recv)
	}
	if sp.trace {
		o.line(1, "let mut trace' : List Event := []")
	}
	var paramNames []string
	for _, f := range fd.Type.Params.List {
		for _, n := range f.Names {
			paramNames = append(paramNames, n.Name)
		}
	}
	var bo out
	t.block(&bo, 1, &ast.BlockStmt{List: body})
	inBody := map[string]bool{}
	for _, st := range body {
		ast.Inspect(st, func(n ast.Node) bool {
			if id, ok := n.(*ast.Ident); ok {
				inBody[id.Name] = true
			}
			return true
		})
	}
	for _, n := range append(paramNames, anchorParams...) {
		if ctx.mutable[n] && inBody[n] {
			o.line(1, "let mut "+leanIdent(n)+" := "+leanIdent(n))
		}
	}
	o.b.WriteString(bo.b.String())
	// a body whose last statement is not a return (void functions) needs a final value
	if sp.until != "" && sp.yield == "" {
		if sp.trace {
			// the translated prefix ran to its end: the handler goes on (told apart from the early returns by this last event)
			o.line(1, "trace' := trace' ++ [⟨\"(continues)\", []⟩]")
		}
		o.line(1, "return "+t.retExpr(nil))
	} else if sp.until != "" {
		o.line(1, "return ("+leanIdent(sp.yield)+", none)")
	} else if n := len(body); n == 0 || !endsInReturn(body[n-1]) {
		o.line(1, "return "+t.retExpr(nil))
	}
	pos := t.p.fset.Position(fd.Pos())
	if sp.anchor != "" || sp.until != "" {
		// of a translated range only the parameters it mentions are kept
		usedIn := map[string]bool{}
		for _, st := range body {
			ast.Inspect(st, func(n ast.Node) bool {
				if id, ok := n.(*ast.Ident); ok {
					usedIn[id.Name] = true
				}
				return true
			})
		}
		var kept []string
		drop := map[int]bool{}
		for _, p := range params {
			n := strings.TrimPrefix(strings.SplitN(p, " ", 2)[0], "(")
			if n == "env" || n == ctx.recv || usedIn[strings.TrimSuffix(n, "'")] {
				kept = append(kept, p)
			} else if r, ok := paramFails[n]; ok {
				for i := r[0]; i < r[1]; i++ {
					drop[i] = true
				}
			}
		}
		params = kept
		var fs []string
		for i, f := range t.fails {
			if !drop[i] {
				fs = append(fs, f)
			}
		}
		t.fails = fs
	}
	hdr := fmt.Sprintf("/-- %s:%s `%s` -/\ndef %s %s : Outcome %s := do\n", shortFile(pos.Filename), "", name, name, strings.Join(params, " "), res)
	t.bodies[name] = hdr + o.b.String()
	t.order = append(t.order, name)
}

func shortFile(p string) string {
	if i := strings.LastIndex(p, "/"); i >= 0 {
		return p[i+1:]
	}
	return p
}

// endsInReturn: control cannot leave the statement by falling through
func endsInReturn(s ast.Stmt) bool {
	switch x := s.(type) {
	case *ast.ReturnStmt:
		return true
	case *ast.BlockStmt:
		return len(x.List) > 0 && endsInReturn(x.List[len(x.List)-1])
	case *ast.IfStmt:
		return x.Else != nil && endsInReturn(x.Body) && endsInReturn(x.Else)
	case *ast.SwitchStmt:
		hasDefault := false
		for _, c := range x.Body.List {
			cc := c.(*ast.CaseClause)
			if cc.List == nil {
				hasDefault = true
			}
			if len(cc.Body) == 0 || !endsInReturn(cc.Body[len(cc.Body)-1]) {
				return false
			}
		}
		return hasDefault
	case *ast.ExprStmt:
		if c, ok := x.X.(*ast.CallExpr); ok {
			if id, ok := c.Fun.(*ast.Ident); ok && id.Name == "panic" {
				return true
			}
		}
	}
	return false
}

// Lean type of a go/types type (used for locals that become parameters)
func (t *trans) leanTypeOf(ty types.Type, where string) string {
	switch x := ty.(type) {
	case *types.Basic:
		if x.Info()&types.IsString != 0 {
			return "String"
		}
		if x.Info()&types.IsBoolean != 0 {
			return "Bool"
		}
		if x.Kind() == types.Uint8 {
			return "UInt8"
		}
		if x.Info()&types.IsInteger != 0 {
			return "Int"
		}
	case *types.Pointer:
		if n, ok := x.Elem().(*types.Named); ok && isErrorTypeName(n.Obj().Name()) {
			return "GoError" // a pointer to an error struct is the error value
		}
		return "(Option " + t.leanTypeOf(x.Elem(), where) + ")"
	case *types.Slice:
		return "(List " + t.leanTypeOf(x.Elem(), where) + ")"
	case *types.Named:
		n := x.Obj().Name()
		if n == "error" || isErrorTypeName(n) {
			return "GoError"
		}
		if x.Obj().Pkg() != nil && x.Obj().Pkg().Path() == "net/http" {
			switch n {
			case "Cookie":
				return "Cookie"
			case "Request":
				return "HTTPRequest"
			}
		}
		return t.leanType(ast.NewIdent(n))
	}
	t.failf("%s: unsupported type of a local: %s", where, ty.String())
	return "Unit"
}

// ---------------------------------------------------------------- driver

// translate: the root package into <outPath>, and package xmlenc into TransXmlenc.lean beside it
func translate(repo string, p *pkgFiles, outPath string) {
	rootSpecs := []transSpec{
		{fn: "firstSet"},
		{fn: "validateRequestID", recv: "ServiceProvider"},
		{fn: "validateAudienceRestriction", recv: "ServiceProvider"},
		{fn: "validateAssertion", recv: "ServiceProvider"},
		{fn: "validateLogoutResponse", recv: "ServiceProvider"},
		{fn: "parseAssertion", recv: "ServiceProvider"},
		{fn: "parseEncryptedAssertion", recv: "ServiceProvider"},
		{fn: "parseResponse", recv: "ServiceProvider"},
		{fn: "findOneChild"},
		{fn: "validateSignature", recv: "ServiceProvider", as: "trustRoots", until: "certificateStore :=", yield: "certs", yieldTy: "(List (Option Certificate))"},
		{fn: "parseArtifactResponse", recv: "ServiceProvider"},
		{fn: "getSPEncryptionCert", recv: "IdpAuthnRequest", until: "certStr = regexp.", yield: "certStr", yieldTy: "String"},
		{fn: "getACSEndpoint", recv: "IdpAuthnRequest", mutRecv: true},
		{fn: "ServeIDPInitiated", recv: "IdentityProvider", as: "idpInitiatedSelect", state: "req",
			anchor: "for _, spssoDescriptor := range req.ServiceProviderMetadata.SPSSODescriptors", until: "if req.ACSEndpoint == nil"},
		{fn: "Validate", recv: "IdpAuthnRequest", mutRecv: true, anchor: "mustHaveDestination :="},
		{fn: "ValidateLogoutResponseForm", recv: "ServiceProvider", as: "logoutFormTail", anchor: "if err := sp.validateSignature(doc.Root()); err != nil {"},
		{fn: "ValidateLogoutResponseRedirect", recv: "ServiceProvider", as: "logoutRedirectTail", anchor: "if err := sp.validateSignature(doc.Root()); err != nil {"},
		{fn: "MakeAssertion", recv: "DefaultAssertionMaker", as: "conditionsNotBefore", anchor: "notBefore := req.Now.Add(-1 * MaxClockSkew)", until: "nameIDFormat :=", yield: "notBefore", yieldTy: "Int"},
		{fn: "MakeAssertion", recv: "DefaultAssertionMaker", as: "conditionsNotOnOrAfter", anchor: "notBefore := req.Now.Add(-1 * MaxClockSkew)", until: "nameIDFormat :=", yield: "notOnOrAfterAfter", yieldTy: "Int"},
		{fn: "MakeResponse", recv: "IdpAuthnRequest", as: "responseHeader", anchor: "response := &Response{", until: "responseEl := response.Element()", yield: "response", yieldTy: "(Option Response)"},
		{fn: "GetSSOBindingLocation", recv: "ServiceProvider"},
		{fn: "GetSLOBindingLocation", recv: "ServiceProvider"},
		{fn: "GetArtifactBindingLocation", recv: "ServiceProvider"},
		{fn: "nameIDFormat", recv: "ServiceProvider"},
		{fn: "ServeIDPInitiated", recv: "IdentityProvider", as: "idpInitiatedGate", state: "req", trace: true,
			anchor: "session := idp.SessionProvider.GetSession(w, r, req)", until: "for _, spssoDescriptor := range req.ServiceProviderMetadata.SPSSODescriptors"},
		{fn: "ServeSSO", recv: "IdentityProvider", as: "serveSSOGate", trace: true, until: "assertionMaker := idp.AssertionMaker"},
	}
	rootExterns := map[string]bool{"NewIdpAuthnRequest": true, "Validate": true, "validateSignature": true, "decryptElement": true, "unmarshalElement": true, "findChildren": true,
		"findChild": true, "getIDPSigningCerts": true, "getCertBasedOnFingerprint": true, "parseCert": true}
	rootPkg := translatePkg(p, outPath, "saml", "SamlVerif.Trans", rootSpecs, rootExterns, nil)
	xSpecs := []transSpec{
		{fn: "appendPadding"},
		{fn: "stripPadding"},
		{fn: "Decrypt", recv: "CBC", as: "cbcFraming", anchor: "blockSize := block.BlockSize()"},
	}
	xOut := ""
	if outPath != "" {
		xOut = filepath.Join(filepath.Dir(outPath), "TransXmlenc.lean")
	}
	translatePkg(parseDir(filepath.Join(repo, "xmlenc")), xOut, "xmlenc", "SamlVerif.TransX", xSpecs, map[string]bool{}, nil)
	spSpecs := []transSpec{
		{fn: "CreateSessionFromAssertion", recv: "Middleware", trace: true},
		{fn: "ServeACS", recv: "Middleware", trace: true},
		{fn: "ServeHTTP", recv: "Middleware", as: "middlewareRoute", trace: true},
		{fn: "GetTrackedRequests", recv: "CookieRequestTracker"},
		{fn: "GetTrackedRequest", recv: "CookieRequestTracker"},
		{fn: "DefaultServiceProvider", as: "defaultServiceProviderTail", anchor: "var forceAuthn *bool"},
		{fn: "DefaultSessionProvider"},
		{fn: "TrackRequest", recv: "CookieRequestTracker", trace: true},
		{fn: "GetSession", recv: "CookieSessionProvider", as: "cookieGetSession"},
		{fn: "CreateSession", recv: "CookieSessionProvider", as: "cookieCreateSession", trace: true, mutRecv: true},
		{fn: "Decode", recv: "JWTTrackedRequestCodec", as: "trackedRequestClaimsCheck", anchor: "if err != nil {"},
		{fn: "Decode", recv: "JWTSessionCodec", as: "sessionClaimsCheck", anchor: "if err != nil {"},
		{fn: "HandleStartAuthFlow", recv: "Middleware", as: "startFlowBinding", anchor: "var binding, bindingLocation string", until: "authReq, err :=", yield: "binding", yieldTy: "String"},
		{fn: "HandleStartAuthFlow", recv: "Middleware", as: "startFlowLocation", anchor: "var binding, bindingLocation string", until: "authReq, err :=", yield: "bindingLocation", yieldTy: "String"},
	}
	spOut := ""
	if outPath != "" {
		spOut = filepath.Join(filepath.Dir(outPath), "TransSamlsp.lean")
	}
	idpOut := ""
	if outPath != "" {
		idpOut = filepath.Join(filepath.Dir(outPath), "TransSamlidp.lean")
	}
	idpSpecs := []transSpec{
		{fn: "HandlePutService", recv: "Server", mutRecv: true, trace: true},
		{fn: "HandleDeleteService", recv: "Server", mutRecv: true, trace: true},
		{fn: "HandlePutUser", recv: "Server", as: "putUserTail", trace: true, anchor: "user.Name = r.PathValue(\"id\")"},
		{fn: "HandleIDPInitiated", recv: "Server", trace: true},
		{fn: "HandleDeleteUser", recv: "Server", trace: true},
		{fn: "HandleDeleteShortcut", recv: "Server", trace: true},
		{fn: "HandlePutShortcut", recv: "Server", as: "putShortcutTail", trace: true, anchor: "shortcut.Name = r.PathValue(\"id\")"},
		{fn: "HandleDeleteSession", recv: "Server", trace: true},
		{fn: "GetServiceProvider", recv: "Server"},
		{fn: "initializeServices", recv: "Server", mutRecv: true},
		{fn: "GetSession", recv: "Server", as: "credentialGuards", trace: true, inside: "if r.Method == \"POST\" && r.PostForm.Get(\"user\") != \"\" {", until: "session := &saml.Session{"},
		{fn: "GetSession", recv: "Server", as: "cookieSession", trace: true, anchor: "if sessionCookie, err := r.Cookie(\"session\"); err == nil {"},
	}
	translatePkg(parseDir(filepath.Join(repo, "samlidp")), idpOut, "samlidp", "SamlVerif.TransI", idpSpecs, map[string]bool{"validPassword": true},
		&foreignPkg{name: "saml", path: "github.com/crewjam/saml", pkg: rootPkg, p: p})
	translatePkg(parseDir(filepath.Join(repo, "samlsp")), spOut, "samlsp", "SamlVerif.TransM", spSpecs, map[string]bool{"ParseResponse": true, "GetSSOBindingLocation": true},
		&foreignPkg{name: "saml", path: "github.com/crewjam/saml", pkg: rootPkg, p: p})
}

// stubHTTP: the few declarations of net/http the translated samlsp functions mention, so that go/types can type their uses
// (the standard library's export data is not read: the translator runs on syntax plus these signatures)
func stubHTTP() *types.Package {
	const src = `package http
type Cookie struct { Name, Value, Path, Domain string; MaxAge int; Secure, HttpOnly bool; SameSite int }
type Values map[string][]string
func (v Values) Get(k string) string
type URL struct { Scheme, Path, Host string }
type Request struct { Form Values; PostForm Values; Method string; Body interface{}; URL *URL }
func (r *Request) PathValue(name string) string
func (r *Request) Cookies() []*Cookie
func (r *Request) Cookie(name string) (*Cookie, error)
func (r *Request) ParseForm() error
type ResponseWriter interface{ WriteHeader(int) }
var ErrNoCookie error
const StatusFound = 302
const StatusInternalServerError = 500
const StatusBadRequest = 400
const StatusNoContent = 204
const StatusNotFound = 404
func Redirect(w ResponseWriter, r *Request, url string, code int)
func Error(w ResponseWriter, error string, code int)
func SetCookie(w ResponseWriter, cookie *Cookie)
func StatusText(code int) string
`
	fset := token.NewFileSet()
	f, err := parser.ParseFile(fset, "http.go", src, 0)
	if err != nil {
		panic(err)
	}
	conf := types.Config{Error: func(error) {}}
	pkg, _ := conf.Check("net/http", fset, []*ast.File{f}, nil)
	return pkg
}

// stubJWT: the declarations of github.com/golang-jwt/jwt/v4 that the translated samlsp functions mention
func stubJWT() *types.Package {
	const src = `package jwt
type ClaimStrings []string
type RegisteredClaims struct { Issuer, Subject, ID string; Audience ClaimStrings }
func (c RegisteredClaims) VerifyAudience(cmp string, req bool) bool
func (c RegisteredClaims) VerifyIssuer(cmp string, req bool) bool
type StandardClaims struct { Audience, Issuer, Subject, Id string }
func (c *StandardClaims) VerifyAudience(cmp string, req bool) bool
func (c *StandardClaims) VerifyIssuer(cmp string, req bool) bool
type SigningMethod interface{ Alg() string }
type Token struct{}
type Parser struct{ ValidMethods []string }
func (p *Parser) ParseWithClaims(s string, claims interface{}, keyFunc func(*Token) (interface{}, error)) (*Token, error)
`
	fset := token.NewFileSet()
	f, err := parser.ParseFile(fset, "jwt.go", src, 0)
	if err != nil {
		panic(err)
	}
	conf := types.Config{Error: func(error) {}}
	pkg, _ := conf.Check("github.com/golang-jwt/jwt/v4", fset, []*ast.File{f}, nil)
	return pkg
}

type foreignPkg struct {
	name string // the name it is imported under
	path string
	pkg  *types.Package
	p    *pkgFiles
}

func translatePkg(p *pkgFiles, outPath string, pkgName string, ns string, specs []transSpec, externs map[string]bool, dep *foreignPkg) *types.Package {
	t := &trans{p: p, nilable: map[string]bool{"Session": pkgName == "samlsp"}, nestedEmbeds: map[string]bool{"JWTTrackedRequestClaims": true}, stubFields: map[string]map[string]string{}, structs: map[string]*ast.StructType{}, ifaces: map[string]*ast.InterfaceType{}, named: map[string]ast.Expr{},
		funcs: map[string]*ast.FuncDecl{}, specs: map[string]transSpec{}, usedF: map[string]map[string]bool{}, usedM: map[string]map[string]bool{},
		envVars: map[string]string{}, done: map[string]bool{}, bodies: map[string]string{},
		externs: externs, extSigs: map[string]string{}}
	var files []*ast.File
	for _, fn := range sortedFileNames(p) {
		f := p.files[fn]
		files = append(files, f)
		for _, d := range f.Decls {
			switch g := d.(type) {
			case *ast.GenDecl:
				if g.Tok != token.TYPE {
					continue
				}
				for _, s := range g.Specs {
					ts := s.(*ast.TypeSpec)
					switch u := ts.Type.(type) {
					case *ast.StructType:
						t.structs[ts.Name.Name] = u
					case *ast.InterfaceType:
						t.ifaces[ts.Name.Name] = u
					default:
						t.named[ts.Name.Name] = ts.Type
					}
				}
			case *ast.FuncDecl:
				key := g.Name.Name
				if _, dup := t.funcs[key]; dup {
					// methods of the same name on several types: keep them apart
					if g.Recv != nil {
						key = recvName(g) + "." + key
					}
				}
				if g.Recv != nil {
					t.funcs[recvName(g)+"."+g.Name.Name] = g
				}
				if _, ok := t.funcs[g.Name.Name]; !ok {
					t.funcs[g.Name.Name] = g
				}
			}
		}
	}
	t.info = &types.Info{Types: map[ast.Expr]types.TypeAndValue{}, Uses: map[*ast.Ident]types.Object{}, Defs: map[*ast.Ident]types.Object{}, Selections: map[*ast.SelectorExpr]*types.Selection{}}
	imp := &fakeImporter{pkgs: map[string]*types.Package{}}
	if dep != nil {
		// the types of the imported package of this repository are real; its declarations are visible under their own names
		imp.pkgs[dep.path] = dep.pkg
		imp.pkgs["net/http"] = stubHTTP()
		imp.pkgs["github.com/golang-jwt/jwt/v4"] = stubJWT()
		t.foreign = dep.name
		for _, fn := range sortedFileNames(dep.p) {
			for _, d := range dep.p.files[fn].Decls {
				switch g := d.(type) {
				case *ast.GenDecl:
					if g.Tok != token.TYPE {
						continue
					}
					for _, sp := range g.Specs {
						ts := sp.(*ast.TypeSpec)
						// a name this package declares itself (in any kind) hides the imported package's
						_, o1 := t.structs[ts.Name.Name]
						_, o2 := t.ifaces[ts.Name.Name]
						_, o3 := t.named[ts.Name.Name]
						if o1 || o2 || o3 {
							continue
						}
						switch u := ts.Type.(type) {
						case *ast.StructType:
							if _, own := t.structs[ts.Name.Name]; !own {
								t.structs[ts.Name.Name] = u
							}
						case *ast.InterfaceType:
							if _, own := t.ifaces[ts.Name.Name]; !own {
								t.ifaces[ts.Name.Name] = u
							}
						default:
							if _, own := t.named[ts.Name.Name]; !own {
								t.named[ts.Name.Name] = ts.Type
							}
						}
					}
				case *ast.FuncDecl:
					if g.Recv != nil {
						k := recvName(g) + "." + g.Name.Name
						if _, own := t.funcs[k]; !own {
							t.funcs[k] = g
						}
					}
				}
			}
		}
	}
	conf := types.Config{Importer: imp, Error: func(error) {}, DisableUnusedImportCheck: true}
	tpkg, _ := conf.Check(pkgName, p.fset, files, t.info)

	key := func(s transSpec) string {
		if s.as != "" {
			return s.as
		}
		return s.fn
	}
	for _, s := range specs {
		t.specs[key(s)] = s
		if s.recv == "" && s.as != "" {
			if fd, ok := t.funcs[s.fn]; ok {
				t.funcs[s.as] = fd
			}
		}
		if s.recv != "" {
			if fd, ok := t.funcs[s.recv+"."+s.fn]; ok {
				t.funcs[key(s)] = fd
			} else {
				delete(t.funcs, key(s))
			}
		}
	}
	for _, s := range specs {
		t.need(key(s))
	}

	var b strings.Builder
	b.WriteString("/- GENERATED by /verif/extract (trans.go) from the current source of /repo — do not edit. -/\n")
	b.WriteString("import SamlVerif.Model.GoSem\n\nset_option linter.unusedVariables false\n\nnamespace " + ns + "\nopen SamlVerif SamlVerif.GoSem\n\n")
	// structures, dependencies first
	emittedS := map[string]bool{}
	var emitS func(name string, stack map[string]bool)
	emitS = func(name string, stack map[string]bool) {
		if emittedS[name] || stack[name] {
			return
		}
		stack[name] = true
		var lines []string
		if st, ok := t.structs[name]; ok {
			// fields promoted from embedded structs are generated as fields of the outer structure
			direct := map[string]bool{}
			for _, f := range st.Fields.List {
				for _, n := range f.Names {
					direct[n.Name] = true
				}
			}
			var promoted []string
			for fn := range t.usedF[name] {
				if !direct[fn] {
					promoted = append(promoted, fn)
				}
			}
			sort.Strings(promoted)
			for _, fn := range promoted {
				ft := t.promotedFieldType(st, fn, 0)
				if ft == nil {
					if lt, ok := t.stubFields[name][fn]; ok {
						lines = append(lines, fmt.Sprintf("  %s : %s", fn, lt))
						continue
					}
					t.failf("structure %s: field %s not found (not even through embedded structs)", name, fn)
					continue
				}
				lt := t.leanType(ft)
				for dep := range t.usedF {
					if dep != name && strings.Contains(" "+strings.NewReplacer("(", " ", ")", " ").Replace(lt)+" ", " "+dep+" ") {
						emitS(dep, stack)
					}
				}
				lines = append(lines, fmt.Sprintf("  %s : %s", fn, lt))
			}
			for _, f := range st.Fields.List {
				for _, n := range f.Names {
					if !t.usedF[name][n.Name] {
						continue
					}
					lt := t.leanType(f.Type)
					for dep := range t.usedF {
						if dep != name && strings.Contains(" "+strings.NewReplacer("(", " ", ")", " ").Replace(lt)+" ", " "+dep+" ") {
							emitS(dep, stack)
						}
					}
					lines = append(lines, fmt.Sprintf("  %s : %s", n.Name, lt))
				}
			}
		} else if it, ok := t.ifaces[name]; ok {
			for _, m := range it.Methods.List {
				ft, ok := m.Type.(*ast.FuncType)
				if !ok || len(m.Names) != 1 || !t.usedM[name][m.Names[0].Name] {
					continue
				}
				sig := t.funcSig(ft)
				for dep := range t.usedF {
					if dep != name && strings.Contains(" "+strings.NewReplacer("(", " ", ")", " ").Replace(sig)+" ", " "+dep+" ") {
						emitS(dep, stack)
					}
				}
				lines = append(lines, fmt.Sprintf("  %s : %s", m.Names[0].Name, sig))
			}
		}
		emittedS[name] = true
		fmt.Fprintf(&b, "structure %s where\n", name)
		if len(lines) == 0 {
			b.WriteString("  mk ::\n")
		}
		for _, l := range lines {
			b.WriteString(l + "\n")
		}
		b.WriteString("  deriving Inhabited\n\n")
	}
	// touching types may add structures: iterate to a fixed point
	for changed := true; changed; {
		before := len(t.usedF)
		for name := range t.usedF {
			if st, ok := t.structs[name]; ok {
				for fn := range t.usedF[name] {
					if ft := t.promotedFieldType(st, fn, 0); ft != nil {
						_ = t.leanType(ft)
					}
				}
			}
		}
		changed = len(t.usedF) != before
	}
	var snames []string
	for n := range t.usedF {
		snames = append(snames, n)
	}
	sort.Strings(snames)
	for _, n := range snames {
		_, isS := t.structs[n]
		_, isI := t.ifaces[n]
		if !isS && !isI {
			continue // (a type of GoSem: Cookie)
		}
		emitS(n, map[string]bool{})
	}
	// Env: package-level variables and the functions that stay outside the translation
	b.WriteString("/-- package-level variables the translated functions read, and the functions they call that are not translated\n    (XML, signatures, decryption): those are parameters -/\nstructure Env where\n")
	var evs []string
	for n := range t.envVars {
		evs = append(evs, n)
	}
	sort.Strings(evs)
	for _, n := range evs {
		fmt.Fprintf(&b, "  %s : %s\n", n, t.envVars[n])
	}
	b.WriteString("  timeNow : Int\n")
	for _, n := range t.extOrder {
		fmt.Fprintf(&b, "  %s : %s\n", n, t.extSigs[n])
	}
	b.WriteString("  deriving Inhabited\n\n")
	for _, n := range t.order {
		b.WriteString(strings.Replace(t.bodies[n], "(env : Env)", "(env : Env)", 1))
		b.WriteString("\n")
	}
	sort.Strings(t.fails)
	writeStrList(&b, "transFailures", t.fails)
	b.WriteString("end " + ns + "\n")
	if outPath == "" {
		fmt.Print(b.String())
		return tpkg
	}
	if err := os.WriteFile(outPath, []byte(b.String()), 0o644); err != nil {
		fmt.Fprintln(os.Stderr, err)
		os.Exit(1)
	}
	return tpkg
}

// promotedFieldType: the type expression of a field reached through embedded (anonymous) struct fields
func (t *trans) promotedFieldType(st *ast.StructType, field string, depth int) ast.Expr {
	if depth > 4 {
		return nil
	}
	for _, f := range st.Fields.List {
		for _, n := range f.Names {
			if n.Name == field {
				return f.Type
			}
		}
	}
	for _, f := range st.Fields.List {
		if len(f.Names) != 0 {
			continue
		}
		ty := f.Type
		if se, ok := ty.(*ast.StarExpr); ok {
			ty = se.X
		}
		if id, ok := ty.(*ast.Ident); ok && id.Name == field {
			return f.Type // the embedded struct named as a field
		}
		if id, ok := ty.(*ast.Ident); ok {
			if inner, ok := t.structs[id.Name]; ok {
				if r := t.promotedFieldType(inner, field, depth+1); r != nil {
					return r
				}
			}
		}
	}
	return nil
}

func recvName(fd *ast.FuncDecl) string {
	if fd.Recv == nil || len(fd.Recv.List) != 1 {
		return ""
	}
	rt := fd.Recv.List[0].Type
	if st, ok := rt.(*ast.StarExpr); ok {
		rt = st.X
	}
	if id, ok := rt.(*ast.Ident); ok {
		return id.Name
	}
	return ""
}
