package main

// Facts about hidden state: the models treat every ServiceProvider / IdentityProvider / middleware method as a function of
// the configuration value and the message ("for all sequences of message creations / validations" is then the single
// call, repeated). That reading is right only while (a) the configuration types have no unexported fields, (b) no
// method writes through its pointer receiver, and (c) the packages keep no mutable package-level state beyond the
// documented knobs. Each is extracted here; the obligations in Props/Pure.lean compare them with what the models assume.

import (
	"go/ast"
	"path/filepath"
	"sort"
	"strings"
)

var configTypes = map[string]map[string]bool{
	".":      {"ServiceProvider": true, "IdentityProvider": true},
	"samlsp": {"Middleware": true, "CookieRequestTracker": true, "CookieSessionProvider": true, "JWTSessionCodec": true, "JWTTrackedRequestCodec": true},
}

func rootIdent(e ast.Expr) string {
	for {
		switch x := e.(type) {
		case *ast.Ident:
			return x.Name
		case *ast.SelectorExpr:
			e = x.X
		case *ast.IndexExpr:
			e = x.X
		case *ast.StarExpr:
			e = x.X
		case *ast.ParenExpr:
			e = x.X
		default:
			return ""
		}
	}
}

func stateFacts(b *strings.Builder, repo string) {
	var hidden, writes, pkgState []string
	for _, dir := range []string{".", "samlsp", "samlidp", "xmlenc"} {
		p := parseDir(filepath.Join(repo, dir))
		pkg := map[string]string{".": "saml", "samlsp": "samlsp", "samlidp": "samlidp", "xmlenc": "xmlenc"}[dir]
		types := configTypes[dir]
		for _, fn := range sortedFileNames(p) {
			for _, d := range p.files[fn].Decls {
				switch g := d.(type) {
				case *ast.GenDecl:
					for _, sp := range g.Specs {
						switch s := sp.(type) {
						case *ast.TypeSpec:
							st, ok := s.Type.(*ast.StructType)
							if !ok || !types[s.Name.Name] {
								continue
							}
							for _, f := range st.Fields.List {
								for _, nm := range f.Names {
									if !ast.IsExported(nm.Name) {
										hidden = append(hidden, pkg+"."+s.Name.Name+"."+nm.Name)
									}
								}
								if len(f.Names) == 0 { // embedded
									n := exprStr(f.Type)
									if i := strings.LastIndex(n, "."); i >= 0 {
										n = n[i+1:]
									}
									if !ast.IsExported(strings.TrimPrefix(n, "*")) {
										hidden = append(hidden, pkg+"."+s.Name.Name+"."+n)
									}
								}
							}
						case *ast.ValueSpec:
							if g.Tok.String() != "var" {
								continue
							}
							for i, nm := range s.Names {
								if nm.Name == "_" {
									continue
								}
								kind := "declared"
								if i < len(s.Values) {
									switch v := s.Values[i].(type) {
									case *ast.CallExpr:
										f := exprStr(v.Fun)
										if f == "errors.New" || f == "fmt.Errorf" {
											continue // an error value
										}
										kind = "call " + f
									case *ast.FuncLit:
										kind = "func"
									case *ast.CompositeLit:
										kind = "literal " + exprStr(v.Type)
									case *ast.BasicLit:
										kind = "constant"
									default:
										kind = "expr"
									}
								} else if s.Type != nil {
									kind = "declared " + exprStr(s.Type)
								}
								pkgState = append(pkgState, pkg+"."+nm.Name+" ("+kind+")")
							}
						}
					}
				case *ast.FuncDecl:
					if g.Recv == nil || len(g.Recv.List) != 1 || g.Body == nil || len(g.Recv.List[0].Names) != 1 {
						continue
					}
					star, ok := g.Recv.List[0].Type.(*ast.StarExpr)
					if !ok || !types[exprStr(star.X)] {
						continue
					}
					recv := g.Recv.List[0].Names[0].Name
					note := func(lhs ast.Expr) {
						if _, bare := lhs.(*ast.Ident); bare {
							return
						}
						if rootIdent(lhs) == recv {
							writes = append(writes, pkg+"."+exprStr(star.X)+"."+g.Name.Name+": "+exprStr2(lhs))
						}
					}
					ast.Inspect(g.Body, func(n ast.Node) bool {
						switch s := n.(type) {
						case *ast.AssignStmt:
							for _, l := range s.Lhs {
								note(l)
							}
						case *ast.IncDecStmt:
							note(s.X)
						}
						return true
					})
				}
			}
		}
	}
	sort.Strings(hidden)
	sort.Strings(writes)
	sort.Strings(pkgState)
	for _, pkg := range []string{"saml", "samlsp"} {
		var h, w []string
		for _, s := range hidden {
			if strings.HasPrefix(s, pkg+".") {
				h = append(h, s)
			}
		}
		for _, s := range writes {
			if strings.HasPrefix(s, pkg+".") {
				w = append(w, s)
			}
		}
		writeStrList(b, "configUnexportedFields_"+pkg, h)
		writeStrList(b, "configReceiverWrites_"+pkg, w)
	}
	// per package, so that each property depends on the state of the packages its code lives in
	for _, pkg := range []string{"saml", "samlsp", "samlidp", "xmlenc"} {
		var l []string
		for _, s := range pkgState {
			if strings.HasPrefix(s, pkg+".") {
				l = append(l, s)
			}
		}
		writeStrList(b, "packageState_"+pkg, l)
	}
}
