package main

// Lock programs of samlidp (DESIGN §2 C20): for every store method and every handler, the sequence of
// lock / unlock / shared-map events along its (flattened) body, with calls inside the package and the
// IdentityProvider callbacks wired in samlidp.New inlined.

import (
	"fmt"
	"go/ast"
	"go/token"
	"path/filepath"
	"sort"
	"strings"
)

var mutexID = map[string]int{"idpConfigMu": 0, "mu": 1}
var sharedID = map[string]int{"data": 0, "serviceProviders": 1}

type lockExtractor struct {
	funcs map[string]*ast.FuncDecl // "Recv.Name"
	depth int
}

func selName(e ast.Expr) (string, bool) {
	if s, ok := e.(*ast.SelectorExpr); ok {
		return s.Sel.Name, true
	}
	return "", false
}

// sharedOf: is e `x.data` / `x.serviceProviders`?
func sharedOf(e ast.Expr) (int, bool) {
	if n, ok := selName(e); ok {
		if id, ok := sharedID[n]; ok {
			return id, true
		}
	}
	return 0, false
}

func (x *lockExtractor) expr(e ast.Expr, out *[]string) {
	if e == nil {
		return
	}
	ast.Inspect(e, func(n ast.Node) bool {
		switch v := n.(type) {
		case *ast.FuncLit:
			return false
		case *ast.CallExpr:
			// mutex operations: recv.<mutex>.<Op>()
			if s, ok := v.Fun.(*ast.SelectorExpr); ok {
				if inner, ok := s.X.(*ast.SelectorExpr); ok {
					if id, ok := mutexID[inner.Sel.Name]; ok {
						op := map[string]string{"RLock": "rlock", "RUnlock": "runlock", "Lock": "lock", "Unlock": "unlock"}[s.Sel.Name]
						if op != "" {
							*out = append(*out, fmt.Sprintf(".%s %d", op, id))
							return false
						}
					}
					// s.Store.M(...) and s.IDP.ServeX(...)
					if inner.Sel.Name == "Store" {
						for _, a := range v.Args {
							x.expr(a, out)
						}
						x.inline("MemoryStore."+s.Sel.Name, out)
						return false
					}
					if inner.Sel.Name == "IDP" {
						switch s.Sel.Name {
						case "ServeSSO":
							x.inline("Server.GetServiceProvider", out)
							x.inline("Server.GetSession", out)
						case "ServeIDPInitiated":
							x.inline("Server.GetSession", out)
							x.inline("Server.GetServiceProvider", out)
						}
						return false
					}
				}
				// s.method(...) inside the package
				if id, ok := s.X.(*ast.Ident); ok && id.Obj != nil {
					if _, known := x.funcs["Server."+s.Sel.Name]; known {
						for _, a := range v.Args {
							x.expr(a, out)
						}
						x.inline("Server."+s.Sel.Name, out)
						return false
					}
				}
			}
			if id, ok := v.Fun.(*ast.Ident); ok && id.Name == "delete" && len(v.Args) == 2 {
				if sid, ok := sharedOf(v.Args[0]); ok {
					x.expr(v.Args[1], out)
					*out = append(*out, fmt.Sprintf(".write %d", sid))
					return false
				}
			}
		case *ast.SelectorExpr:
			if sid, ok := sharedOf(v); ok {
				*out = append(*out, fmt.Sprintf(".read %d", sid))
				return false
			}
		}
		return true
	})
}

func (x *lockExtractor) stmts(l []ast.Stmt, out *[]string, deferred *[][]string) {
	for _, s := range l {
		x.stmt(s, out, deferred)
	}
}

func (x *lockExtractor) stmt(s ast.Stmt, out *[]string, deferred *[][]string) {
	switch v := s.(type) {
	case nil:
	case *ast.ExprStmt:
		x.expr(v.X, out)
	case *ast.AssignStmt:
		for _, r := range v.Rhs {
			x.expr(r, out)
		}
		for _, l := range v.Lhs {
			base := l
			if ix, ok := l.(*ast.IndexExpr); ok {
				x.expr(ix.Index, out)
				base = ix.X
			}
			if sid, ok := sharedOf(base); ok {
				*out = append(*out, fmt.Sprintf(".write %d", sid))
			} else {
				x.expr(l, out)
			}
		}
	case *ast.DeferStmt:
		var d []string
		x.expr(v.Call, &d)
		*deferred = append(*deferred, d)
	case *ast.IfStmt:
		x.stmt(v.Init, out, deferred)
		x.expr(v.Cond, out)
		x.stmt(v.Body, out, deferred)
		x.stmt(v.Else, out, deferred)
	case *ast.BlockStmt:
		x.stmts(v.List, out, deferred)
	case *ast.RangeStmt:
		x.expr(v.X, out)
		x.stmt(v.Body, out, deferred)
	case *ast.ForStmt:
		x.stmt(v.Init, out, deferred)
		x.expr(v.Cond, out)
		x.stmt(v.Body, out, deferred)
		x.stmt(v.Post, out, deferred)
	case *ast.SwitchStmt:
		x.stmt(v.Init, out, deferred)
		x.expr(v.Tag, out)
		x.stmt(v.Body, out, deferred)
	case *ast.CaseClause:
		for _, e := range v.List {
			x.expr(e, out)
		}
		x.stmts(v.Body, out, deferred)
	case *ast.ReturnStmt:
		for _, e := range v.Results {
			x.expr(e, out)
		}
	case *ast.DeclStmt:
		if g, ok := v.Decl.(*ast.GenDecl); ok && g.Tok == token.VAR {
			for _, sp := range g.Specs {
				for _, e := range sp.(*ast.ValueSpec).Values {
					x.expr(e, out)
				}
			}
		}
	case *ast.IncDecStmt:
		x.expr(v.X, out)
	case *ast.GoStmt:
		fail("samlidp: go statement in a handler is outside the extractor's subset")
	}
}

func (x *lockExtractor) body(b *ast.BlockStmt) []string {
	var out []string
	var deferred [][]string
	x.stmts(b.List, &out, &deferred)
	for i := len(deferred) - 1; i >= 0; i-- {
		out = append(out, deferred[i]...)
	}
	return out
}

func (x *lockExtractor) inline(name string, out *[]string) {
	fd, ok := x.funcs[name]
	if !ok || fd.Body == nil {
		fail("samlidp: cannot resolve call to %s", name)
		return
	}
	if x.depth > 6 {
		fail("samlidp: call depth exceeded at %s", name)
		return
	}
	x.depth++
	*out = append(*out, x.body(fd.Body)...)
	x.depth--
}

func lockFacts(b *strings.Builder, repo string) {
	p := parseDir(filepath.Join(repo, "samlidp"))
	x := &lockExtractor{funcs: map[string]*ast.FuncDecl{}}
	type lit struct {
		name string
		fn   *ast.FuncLit
	}
	var lits []lit
	for _, fn := range sortedFileNames(p) {
		for _, d := range p.files[fn].Decls {
			fd, ok := d.(*ast.FuncDecl)
			if !ok || fd.Recv == nil || len(fd.Recv.List) != 1 {
				continue
			}
			rt := fd.Recv.List[0].Type
			if st, ok := rt.(*ast.StarExpr); ok {
				rt = st.X
			}
			x.funcs[exprStr(rt)+"."+fd.Name.Name] = fd
		}
		// handler literals registered in InitializeHTTP
		ast.Inspect(p.files[fn], func(n ast.Node) bool {
			ce, ok := n.(*ast.CallExpr)
			if !ok || len(ce.Args) != 2 {
				return true
			}
			if s, ok := ce.Fun.(*ast.SelectorExpr); ok && s.Sel.Name == "HandleFunc" {
				if fl, ok := ce.Args[1].(*ast.FuncLit); ok {
					lits = append(lits, lit{"handler " + exprStr(ce.Args[0]), fl})
				}
			}
			return true
		})
	}
	emit := func(defName string, names []string, get func(string) []string) {
		fmt.Fprintf(b, "def %s : List (String × List SamlVerif.Locks.Ev) := [\n", defName)
		for i, n := range names {
			sep := ","
			if i == len(names)-1 {
				sep = ""
			}
			fmt.Fprintf(b, "  (%s, [%s])%s\n", leanStr(n), strings.Join(get(n), ", "), sep)
		}
		b.WriteString("]\n\n")
	}
	var storeNames, handlerNames []string
	for n := range x.funcs {
		if strings.HasPrefix(n, "MemoryStore.") {
			storeNames = append(storeNames, n)
		}
		if strings.HasPrefix(n, "Server.Handle") || n == "Server.GetSession" || n == "Server.GetServiceProvider" || n == "Server.initializeServices" {
			handlerNames = append(handlerNames, n)
		}
	}
	sort.Strings(storeNames)
	sort.Strings(handlerNames)
	if len(storeNames) < 4 {
		fail("samlidp: MemoryStore methods not found")
	}
	b.WriteString("/-- lock programs of the in-memory store (mutex 1 = MemoryStore.mu, variable 0 = MemoryStore.data) -/\n")
	emit("storePrograms", storeNames, func(n string) []string { return x.body(x.funcs[n].Body) })
	b.WriteString("/-- lock programs of the request handlers (mutex 0 = Server.idpConfigMu, variable 1 = Server.serviceProviders) -/\n")
	litNames := []string{}
	litMap := map[string]*ast.FuncLit{}
	for _, l := range lits {
		litNames = append(litNames, l.name)
		litMap[l.name] = l.fn
	}
	all := append(append([]string{}, handlerNames...), litNames...)
	emit("handlerPrograms", all, func(n string) []string {
		if fl, ok := litMap[n]; ok {
			return x.body(fl.Body)
		}
		return x.body(x.funcs[n].Body)
	})
}
