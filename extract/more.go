package main

import (
	"fmt"
	"go/ast"
	"go/token"
	"os"
	"os/exec"
	"path/filepath"
	"strings"
)

// facts of package saml: inflate limit, random ID byte counts, time format
func moreFacts(b *strings.Builder, root *pkgFiles, repo string) {
	limit := int64(-1)
	timeFormat := ""
	var idBytes []int64
	for _, fn := range sortedFileNames(root) {
		f := root.files[fn]
		for _, d := range f.Decls {
			g, ok := d.(*ast.GenDecl)
			if !ok || g.Tok != token.CONST {
				continue
			}
			for _, sp := range g.Specs {
				vs := sp.(*ast.ValueSpec)
				for i, nm := range vs.Names {
					if i >= len(vs.Values) {
						continue
					}
					switch nm.Name {
					case "flateUncompressLimit":
						if v, ok := evalInt(vs.Values[i]); ok {
							limit = v
						} else {
							fail("flateUncompressLimit is not a constant integer expression")
						}
					case "timeFormat":
						timeFormat = exprStr(vs.Values[i])
					}
				}
			}
		}
		ast.Inspect(f, func(n ast.Node) bool {
			ce, ok := n.(*ast.CallExpr)
			if !ok || exprStr(ce.Fun) != "randomBytes" || len(ce.Args) != 1 {
				return true
			}
			if v, ok := evalInt(ce.Args[0]); ok {
				idBytes = append(idBytes, v)
			} else {
				fail("%s: randomBytes argument is not a constant", fn)
			}
			return true
		})
	}
	if limit < 0 {
		fail("flateUncompressLimit not found")
		limit = 0
	}
	fmt.Fprintf(b, "def flateUncompressLimit : Nat := %d\n\n", limit)
	fmt.Fprintf(b, "def timeFormat : String := %s\n\n", leanStr(timeFormat))
	b.WriteString("/-- argument of every `randomBytes(n)` call site (message and assertion IDs) -/\ndef idRandomBytes : List Nat := [")
	for i, v := range idBytes {
		if i > 0 {
			b.WriteString(", ")
		}
		fmt.Fprintf(b, "%d", v)
	}
	b.WriteString("]\n\n")
	signingFacts(b, root, repo)
}

// dsigConstants resolves the string constants of the goxmldsig module the repository builds against.
func dsigConstants(repo string) map[string]string {
	out := map[string]string{}
	cmd := exec.Command("go", "list", "-m", "-f", "{{.Dir}}", "github.com/russellhaering/goxmldsig")
	cmd.Dir = repo
	cmd.Env = append(os.Environ(), "GOFLAGS=-mod=mod", "GOPROXY=off", "GOSUMDB=off")
	b, err := cmd.Output()
	if err != nil {
		fail("cannot locate goxmldsig: %v", err)
		return out
	}
	dir := strings.TrimSpace(string(b))
	p := parseDir(dir)
	for _, fn := range sortedFileNames(p) {
		for _, d := range p.files[fn].Decls {
			g, ok := d.(*ast.GenDecl)
			if !ok || g.Tok != token.CONST {
				continue
			}
			for _, sp := range g.Specs {
				vs := sp.(*ast.ValueSpec)
				for i, nm := range vs.Names {
					if i < len(vs.Values) {
						if bl, ok := vs.Values[i].(*ast.BasicLit); ok && bl.Kind == token.STRING {
							out["dsig."+nm.Name] = exprStr(bl)
						}
					}
				}
			}
		}
	}
	_ = filepath.Join
	return out
}

// signingFacts extracts the method -> key type switch of GetSigningContext.
func signingFacts(b *strings.Builder, root *pkgFiles, repo string) {
	consts := dsigConstants(repo)
	type row struct{ uri, keyType string }
	var rows []row
	found := false
	for _, fn := range sortedFileNames(root) {
		for _, d := range root.files[fn].Decls {
			fd, ok := d.(*ast.FuncDecl)
			if !ok || fd.Name.Name != "GetSigningContext" || fd.Body == nil {
				continue
			}
			ast.Inspect(fd.Body, func(n ast.Node) bool {
				sw, ok := n.(*ast.SwitchStmt)
				if !ok || exprStr(sw.Tag) != "sp.SignatureMethod" {
					return true
				}
				found = true
				for _, st := range sw.Body.List {
					cc := st.(*ast.CaseClause)
					if cc.List == nil {
						continue // default: refuses
					}
					keyType := ""
					for _, bs := range cc.Body {
						ast.Inspect(bs, func(m ast.Node) bool {
							if ta, ok := m.(*ast.TypeAssertExpr); ok && exprStr(ta.X) == "sp.Key" {
								keyType = exprStr(ta.Type)
								if se, ok := ta.Type.(*ast.StarExpr); ok {
									keyType = "*" + exprStr(se.X)
								}
							}
							return true
						})
					}
					if keyType == "" {
						fail("GetSigningContext: a case without a key type assertion")
					}
					for _, e := range cc.List {
						name := exprStr(e)
						uri, ok := consts[name]
						if !ok {
							fail("GetSigningContext: cannot resolve %s", name)
							uri = name
						}
						rows = append(rows, row{uri, keyType})
					}
				}
				return false
			})
		}
	}
	if !found {
		fail("GetSigningContext: switch on sp.SignatureMethod not found")
	}
	b.WriteString("/-- `GetSigningContext`: signature method URI ↦ Go type the key must have -/\ndef signingMethods : List (String × String) := [")
	for i, r := range rows {
		if i > 0 {
			b.WriteString(", ")
		}
		fmt.Fprintf(b, "(%s, %s)", leanStr(r.uri), leanStr(r.keyType))
	}
	b.WriteString("]\n\n")
}
