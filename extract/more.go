package main

import (
	"fmt"
	"go/ast"
	"go/token"
	"strings"
)

// facts of package saml: inflate limit, random ID byte counts, time format
func moreFacts(b *strings.Builder, root *pkgFiles, repo string) {
	limit := int64(-1)
	timeFormat := ""
	var idBytes []int64
	for _, fn := range sortedFileNames(root) {
		f := root.files[fn]
		for _, d := range f.Decls {
			g, ok := d.(*ast.GenDecl)
			if !ok || g.Tok != token.CONST {
				continue
			}
			for _, sp := range g.Specs {
				vs := sp.(*ast.ValueSpec)
				for i, nm := range vs.Names {
					if i >= len(vs.Values) {
						continue
					}
					switch nm.Name {
					case "flateUncompressLimit":
						if v, ok := evalInt(vs.Values[i]); ok {
							limit = v
						} else {
							fail("flateUncompressLimit is not a constant integer expression")
						}
					case "timeFormat":
						timeFormat = exprStr(vs.Values[i])
					}
				}
			}
		}
		ast.Inspect(f, func(n ast.Node) bool {
			ce, ok := n.(*ast.CallExpr)
			if !ok || exprStr(ce.Fun) != "randomBytes" || len(ce.Args) != 1 {
				return true
			}
			if v, ok := evalInt(ce.Args[0]); ok {
				idBytes = append(idBytes, v)
			} else {
				fail("%s: randomBytes argument is not a constant", fn)
			}
			return true
		})
	}
	if limit < 0 {
		fail("flateUncompressLimit not found")
		limit = 0
	}
	fmt.Fprintf(b, "def flateUncompressLimit : Nat := %d\n\n", limit)
	fmt.Fprintf(b, "def timeFormat : String := %s\n\n", leanStr(timeFormat))
	b.WriteString("/-- argument of every `randomBytes(n)` call site (message and assertion IDs) -/\ndef idRandomBytes : List Nat := [")
	for i, v := range idBytes {
		if i > 0 {
			b.WriteString(", ")
		}
		fmt.Fprintf(b, "%d", v)
	}
	b.WriteString("]\n\n")
}
