package main

import (
	"fmt"
	"go/ast"
	"go/token"
	"os"
	"os/exec"
	"path/filepath"
	"strings"
)

// facts of package saml: inflate limit, random ID byte counts, time format
func moreFacts(b *strings.Builder, root *pkgFiles, repo string) {
	limit := int64(-1)
	timeFormat := ""
	var idBytes []int64
	for _, fn := range sortedFileNames(root) {
		f := root.files[fn]
		for _, d := range f.Decls {
			g, ok := d.(*ast.GenDecl)
			if !ok || g.Tok != token.CONST {
				continue
			}
			for _, sp := range g.Specs {
				vs := sp.(*ast.ValueSpec)
				for i, nm := range vs.Names {
					if i >= len(vs.Values) {
						continue
					}
					switch nm.Name {
					case "flateUncompressLimit":
						if v, ok := evalInt(vs.Values[i]); ok {
							limit = v
						} else {
							fail("flateUncompressLimit is not a constant integer expression")
						}
					case "timeFormat":
						timeFormat = exprStr(vs.Values[i])
					}
				}
			}
		}
		ast.Inspect(f, func(n ast.Node) bool {
			ce, ok := n.(*ast.CallExpr)
			if !ok || exprStr(ce.Fun) != "randomBytes" || len(ce.Args) != 1 {
				return true
			}
			if v, ok := evalInt(ce.Args[0]); ok {
				idBytes = append(idBytes, v)
			} else {
				fail("%s: randomBytes argument is not a constant", fn)
			}
			return true
		})
	}
	if limit < 0 {
		fail("flateUncompressLimit not found")
		limit = 0
	}
	fmt.Fprintf(b, "def flateUncompressLimit : Nat := %d\n\n", limit)
	fmt.Fprintf(b, "def timeFormat : String := %s\n\n", leanStr(timeFormat))
	b.WriteString("/-- argument of every `randomBytes(n)` call site (message and assertion IDs) -/\ndef idRandomBytes : List Nat := [")
	for i, v := range idBytes {
		if i > 0 {
			b.WriteString(", ")
		}
		fmt.Fprintf(b, "%d", v)
	}
	b.WriteString("]\n\n")
	signingFacts(b, root, repo)
	templateFacts(b, repo)
	trackerFacts(b, repo)
	lockFacts(b, repo)
	idpFacts(b, root)
	spFacts(b, root)
	templateDataFacts(b, repo)
}

// dsigConstants resolves the string constants of the goxmldsig module the repository builds against.
func dsigConstants(repo string) map[string]string {
	out := map[string]string{}
	cmd := exec.Command("go", "list", "-m", "-f", "{{.Dir}}", "github.com/russellhaering/goxmldsig")
	cmd.Dir = repo
	cmd.Env = append(os.Environ(), "GOFLAGS=-mod=mod", "GOPROXY=off", "GOSUMDB=off")
	b, err := cmd.Output()
	if err != nil {
		fail("cannot locate goxmldsig: %v", err)
		return out
	}
	dir := strings.TrimSpace(string(b))
	p := parseDir(dir)
	for _, fn := range sortedFileNames(p) {
		for _, d := range p.files[fn].Decls {
			g, ok := d.(*ast.GenDecl)
			if !ok || g.Tok != token.CONST {
				continue
			}
			for _, sp := range g.Specs {
				vs := sp.(*ast.ValueSpec)
				for i, nm := range vs.Names {
					if i < len(vs.Values) {
						if bl, ok := vs.Values[i].(*ast.BasicLit); ok && bl.Kind == token.STRING {
							out["dsig."+nm.Name] = exprStr(bl)
						}
					}
				}
			}
		}
	}
	_ = filepath.Join
	return out
}

// signingFacts extracts the method -> key type switch of GetSigningContext.
func signingFacts(b *strings.Builder, root *pkgFiles, repo string) {
	consts := dsigConstants(repo)
	type row struct{ uri, keyType string }
	var rows []row
	found := false
	for _, fn := range sortedFileNames(root) {
		for _, d := range root.files[fn].Decls {
			fd, ok := d.(*ast.FuncDecl)
			if !ok || fd.Name.Name != "GetSigningContext" || fd.Body == nil {
				continue
			}
			ast.Inspect(fd.Body, func(n ast.Node) bool {
				sw, ok := n.(*ast.SwitchStmt)
				if !ok || exprStr(sw.Tag) != "sp.SignatureMethod" {
					return true
				}
				found = true
				for _, st := range sw.Body.List {
					cc := st.(*ast.CaseClause)
					if cc.List == nil {
						continue // default: refuses
					}
					keyType := ""
					for _, bs := range cc.Body {
						ast.Inspect(bs, func(m ast.Node) bool {
							if ta, ok := m.(*ast.TypeAssertExpr); ok && exprStr(ta.X) == "sp.Key" {
								keyType = exprStr(ta.Type)
								if se, ok := ta.Type.(*ast.StarExpr); ok {
									keyType = "*" + exprStr(se.X)
								}
							}
							return true
						})
					}
					if keyType == "" {
						fail("GetSigningContext: a case without a key type assertion")
					}
					for _, e := range cc.List {
						name := exprStr(e)
						uri, ok := consts[name]
						if !ok {
							fail("GetSigningContext: cannot resolve %s", name)
							uri = name
						}
						rows = append(rows, row{uri, keyType})
					}
				}
				return false
			})
		}
	}
	if !found {
		fail("GetSigningContext: switch on sp.SignatureMethod not found")
	}
	b.WriteString("/-- `GetSigningContext`: signature method URI ↦ Go type the key must have -/\ndef signingMethods : List (String × String) := [")
	for i, r := range rows {
		if i > 0 {
			b.WriteString(", ")
		}
		fmt.Fprintf(b, "(%s, %s)", leanStr(r.uri), leanStr(r.keyType))
	}
	b.WriteString("]\n\n")
}

// foldString folds a concatenation of string literals.
func foldString(e ast.Expr) (string, bool) {
	switch x := e.(type) {
	case *ast.BasicLit:
		if x.Kind == token.STRING {
			return exprStr(x), true
		}
	case *ast.BinaryExpr:
		if x.Op == token.ADD {
			l, ok1 := foldString(x.X)
			r, ok2 := foldString(x.Y)
			return l + r, ok1 && ok2
		}
	case *ast.ParenExpr:
		return foldString(x.X)
	}
	return "", false
}

// templateFacts: every `template.New(..).Parse(<literal>)` with the import path of `template` in that file.
func templateFacts(b *strings.Builder, repo string) {
	type tf struct{ file, imp, text string }
	var out []tf
	for _, dir := range []string{".", "samlidp", "samlsp"} {
		p := parseDir(filepath.Join(repo, dir))
		for _, fn := range sortedFileNames(p) {
			f := p.files[fn]
			imp := ""
			for _, is := range f.Imports {
				path := strings.Trim(is.Path.Value, "\"")
				if path == "html/template" || path == "text/template" {
					if is.Name == nil || is.Name.Name == "template" {
						imp = path
					}
				}
			}
			ast.Inspect(f, func(n ast.Node) bool {
				ce, ok := n.(*ast.CallExpr)
				if !ok || len(ce.Args) != 1 {
					return true
				}
				se, ok := ce.Fun.(*ast.SelectorExpr)
				if !ok || se.Sel.Name != "Parse" {
					return true
				}
				inner, ok := se.X.(*ast.CallExpr)
				if !ok || exprStr(inner.Fun) != "template.New" {
					return true
				}
				txt, ok := foldString(ce.Args[0])
				if !ok {
					fail("%s/%s: template text is not a constant string", dir, fn)
					return true
				}
				out = append(out, tf{filepath.Join(dir, fn), imp, txt})
				return true
			})
		}
	}
	b.WriteString("/-- every template the library parses: (file, import path of `template`, UTF-8 bytes of the text) -/\ndef templates : List (String × String × List UInt8) := [\n")
	for i, t := range out {
		sep := ","
		if i == len(out)-1 {
			sep = ""
		}
		fmt.Fprintf(b, "  (%s, %s, %s)%s\n", leanStr(t.file), leanStr(t.imp), byteList(t.text), sep)
	}
	b.WriteString("]\n\n")
}

func byteList(s string) string {
	var sb strings.Builder
	sb.WriteString("[")
	for i := 0; i < len(s); i++ {
		if i > 0 {
			sb.WriteString(", ")
		}
		fmt.Fprintf(&sb, "%d", s[i])
	}
	sb.WriteString("]")
	return sb.String()
}

// trackerFacts: the lifetime expressions of the default request tracker and its codec (samlsp/new.go),
// and the cookie attributes the default session provider / tracker set.
func trackerFacts(b *strings.Builder, repo string) {
	p := parseDir(filepath.Join(repo, "samlsp"))
	var rows []string
	for _, fn := range sortedFileNames(p) {
		for _, d := range p.files[fn].Decls {
			fd, ok := d.(*ast.FuncDecl)
			if !ok || fd.Body == nil {
				continue
			}
			if fd.Name.Name != "DefaultTrackedRequestCodec" && fd.Name.Name != "DefaultRequestTracker" {
				continue
			}
			found := false
			ast.Inspect(fd.Body, func(n ast.Node) bool {
				cl, ok := n.(*ast.CompositeLit)
				if !ok {
					return true
				}
				if v, ok := compositeFields(cl)["MaxAge"]; ok {
					rows = append(rows, fmt.Sprintf("(%s, %s)", leanStr(fd.Name.Name), leanStr(exprStr(v))))
					found = true
				}
				return true
			})
			if !found {
				fail("samlsp %s: no MaxAge field found", fd.Name.Name)
			}
		}
	}
	b.WriteString("/-- `MaxAge` expression in the default tracker and its codec -/\ndef trackerMaxAge : List (String × String) := [" + strings.Join(rows, ", ") + "]\n\n")
	// HttpOnly literals of the cookies the tracker and the session provider set
	var flags []string
	for _, fn := range sortedFileNames(p) {
		ast.Inspect(p.files[fn], func(n ast.Node) bool {
			cl, ok := n.(*ast.CompositeLit)
			if !ok {
				return true
			}
			if t := exprStr(cl.Type); t == "http.Cookie" || t == "&http.Cookie" {
				fs := compositeFields(cl)
				if v, ok := fs["HttpOnly"]; ok {
					flags = append(flags, fmt.Sprintf("(%s, %s)", leanStr(fn), leanStr(exprStr(v))))
				}
			}
			return true
		})
	}
	b.WriteString("/-- `HttpOnly` expression of every cookie literal in samlsp -/\ndef cookieHttpOnly : List (String × String) := [" + strings.Join(flags, ", ") + "]\n\n")
}
