#!/bin/sh
# usage: seedtest.sh <Cxx> <dir with patch.diff> [tier]  — applies the seeded change to /repo, runs the check, undoes it.
# The evidence file is put back afterwards: committed evidence must describe a run against /repo itself.
P=$1; D=$2; T=${3:-quick}
cd /repo && git status --porcelain | grep -q . && { echo "/repo dirty"; exit 2; }
git -C /repo apply "$D/patch.diff" || { echo "patch does not apply"; exit 2; }
cp /verif/evidence/$P.json /tmp/.seedtest-evidence-$P.json 2>/dev/null
cd /verif && ./check $P $T; rc=$?
git -C /repo checkout -- . ; git -C /repo clean -fdq
[ -f /tmp/.seedtest-evidence-$P.json ] && mv /tmp/.seedtest-evidence-$P.json /verif/evidence/$P.json
echo "seedtest $P rc=$rc"
exit $rc
