#!/bin/sh
# usage: seedtest.sh <Cxx> <dir with patch.diff> [tier]  — applies the seeded change to the repository, runs the check, undoes it.
# The repository is /repo, or $VERIF_REPO (a scratch snapshot, so that a long regression does not occupy /repo).
# The evidence file is put back afterwards: committed evidence must describe a run against /repo itself.
P=$1; D=$2; T=${3:-quick}
R=${VERIF_REPO:-/repo}
V=$(cd "$(dirname "$0")" && pwd)
cd $R && git status --porcelain | grep -q . && { echo "$R dirty"; exit 2; }
git -C $R apply "$D/patch.diff" || { echo "patch does not apply"; exit 2; }
cp $V/evidence/$P.json $V/.seedtest-evidence-$P.json 2>/dev/null
cd $V && ./check $P $T; rc=$?
git -C $R checkout -- . ; git -C $R clean -fdq
[ -f $V/.seedtest-evidence-$P.json ] && mv $V/.seedtest-evidence-$P.json $V/evidence/$P.json
echo "seedtest $P rc=$rc"
exit $rc
